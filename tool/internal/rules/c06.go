package rules

import (
	"fmt"
	"go/constant"
	"go/types"
	"sort"
	"strings"

	"golang.org/x/tools/go/ssa"

	"iocvet/internal/absint"
	"iocvet/internal/core"
)

func init() { register("C06", c06); register("C07", c07) }

// ---- candidate-query table over the dependency processors ---------------------------------------------

type fieldShape struct {
	name string
	kind int64 // reflect.Kind of the field type
	elem int64 // kind of the element type for slices, 0 otherwise
}

var fieldShapes = []fieldShape{
	{"*T", 22, 0}, {"I", 20, 0}, {"[]*T", 23, 22}, {"[]I", 23, 20}, {"string", 24, 0}, {"[]string", 23, 24}, {"map", 21, 0}, {"struct", 25, 0},
}

var depRows = map[string]string{
	"foreign-tag":       "a property carrying another tag is not touched and causes no registry query",
	"by-type-pointer":   "unnamed pointer (or slice-of-pointer) point: exactly one GetMetas query with Type(<that pointer type>) (plus the method predicate for func), result appended to the candidates",
	"by-type-interface": "unnamed interface (or slice-of-interface) point: exactly one GetMetas query with InterfaceType(<that interface>) (plus the method predicate for func), result appended",
	"unsupported-kind":  "a field of any other kind causes no query and gets no candidates",
	"by-name":           "named single-valued point: exactly one GetMetaByName(<the tag value>) and no type query",
	"by-name-guard":     "a by-name candidate is appended iff it exists and is assignable to the field type",
	"by-name-slice":     "a named point on a slice field causes no query",
	"func-predicate":    "func tag: the method predicate is FuncName(tag value), or Or(FuncNameAndResult(tag value, r) for every returns argument)",
	"no-error":          "candidate collection itself never fails or panics",
	"independent":       "what a point is asked for and receives does not depend on the points of the same holder processed before it",
	"unshared":          "two points of the same field type end up with candidate lists of their own, not with one list both hold",
}

type depRun struct {
	firstTok *absint.Tok
	queries  []string
	byName   []string
	assign   []string
	injects  absint.Value
	propTok  *absint.Tok
	panicMsg string
	nothing  bool // the registry answered that nothing qualifies
}

// depProcessorTable interprets one dependency processor's PostProcessProperties on every (tag, tag value, field shape,
// lookup outcome) combination.
func depProcessorTable(c *core.Ctx, p *procInfo) (rs rows, runs int, ownTags map[string]bool, undecided string) {
	ro := c.Roles()
	rs = rows{}
	ownTags = map[string]bool{}
	prop := c.Named("component_definition", "Property")
	tagArg := c.Named("component_definition", "TagArg")
	argsM := c.DeclaredMethod(prop, "Args")
	find := c.DeclaredMethod(tagArg, "Find")
	fType, fIface := c.Func("container", "Type"), c.Func("container", "InterfaceType")
	fName, fNameRes := c.Func("container", "FuncName"), c.Func("container", "FuncNameAndResult")
	fOr, fAnd := c.Func("container", "Or"), c.Func("container", "And")
	if fType == nil || fIface == nil || argsM == nil || find == nil {
		return rs, 0, ownTags, "container.Type / InterfaceType / Property.Args / TagArg.Find not found"
	}
	tags := []string{"wire", "func", "value", "prefix", "logger", "custom"}
	single := map[string]string{} // outcome of each point processed alone, by configuration and oracle choices
	own := procOwnTag(c, p)
	funcTag := stringConst(c, "definition", "FuncTag")
	if own == "" {
		return rs, 0, ownTags, "the processor does not compare Property.Tag with a constant"
	}
	for _, tag := range tags {
		for _, tagVal := range []string{"", "beanName"} {
			for _, sh := range fieldShapes {
				for _, returns := range []int{0, 2, -2, -3, -4} { // negative: the same point preceded by another point of the processor's own tag
					if tag != "func" && returns > 0 {
						continue
					}
					withFirst := returns < 0
					firstNamedMissing := returns == -3 // the earlier point names a component that does not exist
					sameType := returns == -4          // the earlier point has the very same field type (and no name)
					if sameType && tagVal != "" {
						continue
					}
					if withFirst {
						returns = 2
						if tag != "func" {
							returns = 0
						}
						if tag != own || (firstNamedMissing && tag == "func") {
							continue
						}
					}
					var run *depRun
					var byNameFound, assignable bool
					build := func() (absint.Oracle, []absint.Value, []absint.Value) {
						run = &depRun{}
						byNameFound, assignable = false, false
						t := newTbl(c)
						self := absint.NewTok("proc", "processor")
						reg := absint.NewTok("registry", "registry")
						pr := absint.NewTok("prop", "property")
						run.propTok = pr
						fld := absint.NewTok("prop.Field", "field")
						base := absint.NewTok("prop.Field.Base", "base")
						ft := absint.NewTok("T:"+sh.name, "type")
						ft.Attr["kind"] = absint.Int(sh.kind)
						if sh.elem != 0 {
							et := absint.NewTok("T:elem("+sh.name+")", "type")
							et.Attr["kind"] = absint.Int(sh.elem)
							ft.Attr["elem"] = et
						}
						args := absint.NewTok("args", "tagargs")
						pr.Fields["Field"], fld.Fields["Base"], base.Fields["Type"] = fld, base, ft
						pr.Fields["Tag"], pr.Fields["TagVal"] = absint.Str(tag), absint.Str(tagVal)
						pr.Fields["TagStr"] = absint.Str("${raw}" + tagVal) // the raw tag text before placeholder substitution
						pr.Fields["PropertyType"] = absint.Str("Component")
						pr.Fields["args"] = args
						pr.Fields["Injects"] = &absint.List{IsNil: true}
						t.field = func(ip *absint.Interp, obj *absint.Tok, name string, typ types.Type) absint.Value {
							if obj == self && types.IsInterface(typ) {
								return reg
							}
							return nil
						}
						// the point processed before: an unnamed pointer point of the same tag, with a returns argument of its own
						pr0 := absint.NewTok("prop0", "property")
						fld0, base0, ft0, args0 := absint.NewTok("prop0.Field", "field"), absint.NewTok("prop0.Field.Base", "base"), absint.NewTok("T0:first", "type"), absint.NewTok("args0", "tagargs")
						ft0.Attr["kind"] = absint.Int(22)
						if sameType {
							ft0 = ft
						}
						run.firstTok = pr0
						pr0.Fields["Field"], fld0.Fields["Base"], base0.Fields["Type"] = fld0, base0, ft0
						pr0.Fields["Tag"], pr0.Fields["TagVal"], pr0.Fields["TagStr"] = absint.Str(tag), absint.Str(""), absint.Str("${raw}")
						if tag == "func" {
							pr0.Fields["TagVal"] = absint.Str("First")
						}
						if firstNamedMissing {
							pr0.Fields["TagVal"] = absint.Str("missing0")
						}
						pr0.Fields["PropertyType"] = absint.Str("Component")
						pr0.Fields["args"] = args0
						pr0.Fields["Injects"] = &absint.List{IsNil: true}
						t.callee[argsM] = func(ip *absint.Interp, a []absint.Value) absint.Value {
							if a[0] == absint.Value(pr0) {
								return args0
							}
							return args
						}
						t.callee[find] = func(ip *absint.Interp, a []absint.Value) absint.Value {
							if k, ok := a[1].(absint.Str); ok && strings.EqualFold(string(k), "returns") {
								if a[0] == absint.Value(args0) && tag == "func" {
									return absint.Tuple{&absint.List{Elems: []absint.Value{absint.Str("q0")}}, absint.Bool(true)}
								}
								if a[0] != absint.Value(args0) && returns > 0 {
									return absint.Tuple{&absint.List{Elems: []absint.Value{absint.Str("r1"), absint.Str("r2")}}, absint.Bool(true)}
								}
							}
							return absint.Tuple{&absint.List{IsNil: true}, absint.Bool(false)}
						}
						opt := func(kind string, a ...absint.Value) absint.Value {
							o := absint.NewTok(kind, "option")
							var s []string
							for _, x := range a {
								s = append(s, absint.Show(x))
							}
							o.ID = kind + "(" + strings.Join(s, ",") + ")"
							return o
						}
						t.callee[fType] = func(ip *absint.Interp, a []absint.Value) absint.Value { return opt("Type", a[0]) }
						t.callee[fIface] = func(ip *absint.Interp, a []absint.Value) absint.Value { return opt("InterfaceType", a[0]) }
						if fName != nil {
							t.callee[fName] = func(ip *absint.Interp, a []absint.Value) absint.Value { return opt("FuncName", a[0]) }
						}
						if fNameRes != nil {
							t.callee[fNameRes] = func(ip *absint.Interp, a []absint.Value) absint.Value { return opt("FuncNameAndResult", a[0], a[1]) }
						}
						listOpt := func(kind string) func(ip *absint.Interp, a []absint.Value) absint.Value {
							return func(ip *absint.Interp, a []absint.Value) absint.Value {
								l, _ := a[0].(*absint.List)
								var xs []absint.Value
								if l != nil {
									xs = l.Elems
								}
								return opt(kind, xs...)
							}
						}
						if fOr != nil {
							t.callee[fOr] = listOpt("Or")
						}
						if fAnd != nil {
							t.callee[fAnd] = listOpt("And")
						}
						t.invokeN["Kind"] = func(ip *absint.Interp, a []absint.Value) absint.Value {
							if ty, ok := a[0].(*absint.Tok); ok && ty.Attr["kind"] != nil {
								return ty.Attr["kind"]
							}
							panic(&absint.Undecided{Msg: "Kind() of an unknown type token"})
						}
						t.invokeN["Elem"] = func(ip *absint.Interp, a []absint.Value) absint.Value {
							if ty, ok := a[0].(*absint.Tok); ok && ty.Attr["elem"] != nil {
								return ty.Attr["elem"]
							}
							panic(&absint.GoPanic{Msg: "reflect: Elem of invalid type"})
						}
						t.invokeN["AssignableTo"] = func(ip *absint.Interp, a []absint.Value) absint.Value {
							run.assign = append(run.assign, absint.Show(a[0])+"->"+absint.Show(a[1]))
							assignable = ip.Choose(2, "assignable") == 0
							return absint.Bool(assignable)
						}
						t.invoke[ro.DRGetMetas] = func(ip *absint.Interp, a []absint.Value) absint.Value {
							l, _ := a[1].(*absint.List)
							var s []string
							if l != nil {
								for _, o := range l.Elems {
									s = append(s, absint.Show(o))
								}
							}
							run.queries = append(run.queries, strings.Join(s, " & "))
							// (for a point processed alone also: nothing qualifies - the answer is final, no other query follows)
							if !withFirst && !sameType && ip.Choose(2, "nothing qualifies") == 1 {
								run.nothing = true
								return &absint.List{Elems: nil}
							}
							return &absint.List{Elems: []absint.Value{absint.NewTok("C1", "cand"), absint.NewTok("C2", "cand")}}
						}
						t.invoke[ro.DRGetMetaByName] = func(ip *absint.Interp, a []absint.Value) absint.Value {
							if a[1] == absint.Value(absint.Str("missing0")) {
								return absint.Nil{} // the earlier point's component does not exist
							}
							run.byName = append(run.byName, absint.Show(a[1]))
							byNameFound = ip.Choose(2, "by-name lookup") == 0
							if byNameFound {
								n := absint.NewTok("Named", "cand")
								nb := absint.NewTok("Named.Base", "base")
								nb.Fields["Type"] = absint.NewTok("T:named", "type")
								n.Fields["Base"] = nb
								return n
							}
							return absint.Nil{}
						}
						props := &absint.List{Elems: []absint.Value{pr}}
						if withFirst {
							props = &absint.List{Elems: []absint.Value{pr0, pr}}
						}
						return t, []absint.Value{self, props, absint.NewTok("component", "component"), absint.NewTok("componentName", "key")}, nil
					}
					check := func(ip *absint.Interp, out absint.Outcome) {
						if sameType {
							// what the second point receives is what it gets alone, and it is a list of its own: a list
							// shared with the earlier point would be rewritten for both when one of them is narrowed in place
							key := fmt.Sprintf("%s|%s|%s|%d|%v|%v", tag, tagVal, sh.name, returns, byNameFound, assignable)
							got := absint.Show(run.propTok.Fields["Injects"])
							rs.hit("independent")
							if alone, ok := single[key]; ok && !strings.Contains(alone, "injects="+got+" =>") {
								rs.fail("independent", fmt.Sprintf("tag=%s field=%s: processed alone: %s; after another point of the same field type it holds %s", tag, sh.name, alone, got))
							}
							l0, _ := run.firstTok.Fields["Injects"].(*absint.List)
							l1, _ := run.propTok.Fields["Injects"].(*absint.List)
							rs.hit("unshared")
							if l0 != nil && l1 != nil && len(l1.Elems) > 0 && (l0 == l1 || (l0.Base != nil && l0.Base == l1.Base) || l0.Base == l1 || l1.Base == l0) {
								rs.fail("unshared", fmt.Sprintf("tag=%s field=%s: two points of one field type hold the same candidate list (%s)", tag, sh.name, got))
							}
							return
						}
						if withFirst {
							// differential: what concerns the second point is what the same point got when processed alone
							var q []string
							for _, x := range run.queries {
								if !strings.Contains(x, "(T0:first)") {
									q = append(q, x)
								}
							}
							key := fmt.Sprintf("%s|%s|%s|%d|%v|%v", tag, tagVal, sh.name, returns, byNameFound, assignable)
							sig := fmt.Sprintf("queries=%v byName=%v assignableAsked=%v injects=%s => %s", q, run.byName, run.assign, absint.Show(run.propTok.Fields["Injects"]), showOutcome(out))
							rs.hit("independent")
							if alone, ok := single[key]; !ok || alone != sig {
								rs.fail("independent", fmt.Sprintf("tag=%s value=%q field=%s returns=%d: processed alone: %s; after another pointer point of the same tag (names a missing component: %v): %s", tag, tagVal, sh.name, returns, alone, firstNamedMissing, sig))
							}
							return
						}
						if run.nothing {
							// nothing qualified: exactly the one query was made and the point holds no candidate
							injE, _ := run.propTok.Fields["Injects"].(*absint.List)
							rs.hit("no-error")
							if out.Panic != nil || len(run.queries) != 1 || len(run.byName) != 0 || (injE != nil && len(injE.Elems) != 0) {
								rs.fail("no-error", fmt.Sprintf("tag=%s value=%q field=%s: the registry answered that nothing qualifies; queries=%v injects=%s => %s (want the one query and no candidate)", tag, tagVal, sh.name, run.queries, absint.Show(run.propTok.Fields["Injects"]), showOutcome(out)))
							}
							return
						}
						single[fmt.Sprintf("%s|%s|%s|%d|%v|%v", tag, tagVal, sh.name, returns, byNameFound, assignable)] = fmt.Sprintf("queries=%v byName=%v assignableAsked=%v injects=%s => %s", run.queries, run.byName, run.assign, absint.Show(run.propTok.Fields["Injects"]), showOutcome(out))
						inj := absint.Show(run.propTok.Fields["Injects"])
						w := fmt.Sprintf("tag=%s value=%q field=%s returns=%d queries=%v byName=%v assignableAsked=%v injects=%s => %s", tag, tagVal, sh.name, returns, run.queries, run.byName, run.assign, inj, showOutcome(out))
						rs.hit("no-error")
						if out.Panic != nil || (len(out.Ret) == 2 && isErrTok(out.Ret[1])) {
							rs.fail("no-error", w)
							return
						}
						acted := len(run.queries) > 0 || len(run.byName) > 0 || inj != "[]nil"
						if acted {
							ownTags[tag] = true
						}
						injList, _ := run.propTok.Fields["Injects"].(*absint.List)
						isOwn := tag == own
						if !isOwn {
							rs.hit("foreign-tag")
							if acted {
								rs.fail("foreign-tag", w)
							}
							return
						}
						isFunc := own == funcTag
						effKind, typTok := sh.kind, "T:"+sh.name
						if sh.kind == 23 {
							effKind, typTok = sh.elem, "T:elem("+sh.name+")"
						}
						if tagVal != "" && !isFunc {
							// by name
							if sh.kind == 22 || sh.kind == 20 {
								rs.hit("by-name")
								if len(run.queries) != 0 || len(run.byName) != 1 || run.byName[0] != fmt.Sprintf("%q", tagVal) {
									rs.fail("by-name", w)
								}
								rs.hit("by-name-guard")
								want := byNameFound && assignable
								got := injList != nil && len(injList.Elems) == 1 && isTokID(injList.Elems[0], "Named")
								empty := injList == nil || len(injList.Elems) == 0
								okAsk := !byNameFound || (len(run.assign) == 1 && run.assign[0] == "T:named->T:"+sh.name)
								if (want && !got) || (!want && !empty) || !okAsk {
									rs.fail("by-name-guard", w)
								}
							} else {
								rs.hit("by-name-slice")
								if acted {
									rs.fail("by-name-slice", w)
								}
							}
							return
						}
						var wantOpt, row string
						switch effKind {
						case 22:
							wantOpt, row = "Type("+typTok+")", "by-type-pointer"
						case 20:
							wantOpt, row = "InterfaceType("+typTok+")", "by-type-interface"
						default:
							rs.hit("unsupported-kind")
							if acted {
								rs.fail("unsupported-kind", w)
							}
							return
						}
						rs.hit(row)
						want := wantOpt
						if isFunc {
							rs.hit("func-predicate")
							pred := fmt.Sprintf("FuncName(%q)", tagVal)
							if returns > 0 {
								pred = fmt.Sprintf("Or(FuncNameAndResult(%q,\"r1\"),FuncNameAndResult(%q,\"r2\"))", tagVal, tagVal)
							}
							want = wantOpt + " & " + pred
							if len(run.queries) != 1 || run.queries[0] != want {
								rs.fail("func-predicate", w+" expected query "+want)
							}
						}
						okInj := injList != nil && len(injList.Elems) == 2 && isTokID(injList.Elems[0], "C1") && isTokID(injList.Elems[1], "C2")
						if len(run.queries) != 1 || run.queries[0] != want || len(run.byName) != 0 || !okInj {
							rs.fail(row, w+" expected query "+want)
						}
					}
					n2, u := runTable(c, p.Props, build, check)
					runs += n2
					if u != "" {
						return rs, runs, ownTags, u
					}
				}
			}
		}
	}
	return
}

// procOwnTag: the string constant the processor compares Property.Tag with.
func procOwnTag(c *core.Ctx, p *procInfo) string {
	if s := procOwnTagSyntactic(c, p); s != "" {
		return s
	}
	key := "own-tag-probe:" + p.Name()
	if v, ok := c.Memo.Load(key); ok {
		return v.(string)
	}
	s := procOwnTagProbe(c, p)
	c.Memo.Store(key, s)
	return s
}

// procOwnTagProbe finds the tag a processor selects by, when the comparison is not written in its method (a predicate
// made by a factory, a generic selection helper): the method is interpreted on one property that has nothing but a
// tag, once for every tag constant of package definition.  A property the processor passes over ends the run at
// once without another field of it being read; the processor's own tag is the one tag for which that is not so.
func procOwnTagProbe(c *core.Ctx, p *procInfo) string {
	dp := c.ByPath[core.Mod+"/definition"]
	if dp == nil || p.Props == nil {
		return ""
	}
	var tags []string
	sc := dp.Types.Scope()
	for _, name := range sc.Names() {
		if k, ok := sc.Lookup(name).(*types.Const); ok && strings.HasSuffix(name, "Tag") && k.Val().Kind() == constant.String {
			tags = append(tags, constant.StringVal(k.Val()))
		}
	}
	tags = append(tags, "no-such-tag")
	var taken []string
	for _, tag := range tags {
		t := newTbl(c)
		pr := absint.NewTok("prop", "property")
		pr.Fields["Tag"] = absint.Str(tag)
		other := false
		t.field = func(ip *absint.Interp, obj *absint.Tok, name string, typ types.Type) absint.Value {
			if obj == pr && name != "PropertyType" {
				other = true
			}
			return nil
		}
		ip := absint.New(t)
		ip.IsLog, ip.InScope = core.IsLogCall, c.InScope
		args := layoutArgs(p.Props, func(ty types.Type) absint.Value {
			if sl, ok := ty.Underlying().(*types.Slice); ok && core.NamedOf(sl.Elem()) == c.Named("component_definition", "Property") {
				return &absint.List{Elems: []absint.Value{pr}}
			}
			return nil
		})
		out := ip.Run(p.Props, args, nil)
		if out.Undecided != nil || out.Panic != nil || other {
			taken = append(taken, tag)
		}
	}
	if len(taken) == 1 && taken[0] != "no-such-tag" {
		return taken[0]
	}
	return ""
}

// selectionProbe: what a processor selects properties by, found by interpretation: "Tag==<t>" when it passes over a
// property of every other tag untouched, "PropertyType==<k>" when it passes over every property of the other kind
// untouched, "" when neither could be shown.
func selectionProbe(c *core.Ctx, p *procInfo) string {
	key := "selection-probe:" + p.Name()
	if v, ok := c.Memo.Load(key); ok {
		return v.(string)
	}
	res := ""
	if t := procOwnTagProbe(c, p); t != "" {
		res = "Tag==" + t
	} else if p.Props != nil {
		var taken []string
		for _, kind := range []string{"Component", "Configuration", "no-such-kind"} {
			t := newTbl(c)
			pr := absint.NewTok("prop", "property")
			pr.Fields["PropertyType"] = absint.Str(kind)
			other := false
			t.field = func(ip *absint.Interp, obj *absint.Tok, name string, typ types.Type) absint.Value {
				if obj == pr {
					other = true
				}
				return nil
			}
			ip := absint.New(t)
			ip.IsLog, ip.InScope = core.IsLogCall, c.InScope
			args := layoutArgs(p.Props, func(ty types.Type) absint.Value {
				if sl, ok := ty.Underlying().(*types.Slice); ok && core.NamedOf(sl.Elem()) == c.Named("component_definition", "Property") {
					return &absint.List{Elems: []absint.Value{pr}}
				}
				return nil
			})
			out := ip.Run(p.Props, args, nil)
			if out.Undecided != nil || out.Panic != nil || other {
				taken = append(taken, kind)
			}
		}
		if len(taken) == 1 && taken[0] != "no-such-kind" {
			res = "PropertyType==" + taken[0]
		}
	}
	c.Memo.Store(key, res)
	return res
}

func procOwnTagSyntactic(c *core.Ctx, p *procInfo) string {
	for _, b := range p.Props.Blocks {
		for _, in := range b.Instrs {
			bo, ok := in.(*ssa.BinOp)
			if !ok {
				continue
			}
			if propFieldLoad(c, bo.X, "Tag") {
				if s, ok := core.ConstString(bo.Y); ok {
					return s
				}
			}
			if propFieldLoad(c, bo.Y, "Tag") {
				if s, ok := core.ConstString(bo.X); ok {
					return s
				}
			}
		}
	}
	return ""
}

// stringConst returns the value of a package-level string constant.
func stringConst(c *core.Ctx, pkgRel, name string) string {
	p := c.ByPath[core.Mod+"/"+pkgRel]
	if p == nil {
		return ""
	}
	k, ok := p.Types.Scope().Lookup(name).(*types.Const)
	if !ok {
		return ""
	}
	return constant.StringVal(k.Val())
}

// ---- predicate tables -----------------------------------------------------------------------------------

func predicateTables(c *core.Ctx, r *core.Report) {
	// Type / InterfaceType closures
	for _, pn := range []string{"Type", "InterfaceType"} {
		ctor := c.Func("container", pn)
		cons := "predicate:container." + pn
		if ctor == nil || len(ctor.Params) != 1 {
			r.Undecided("C06.R2", cons, "", "predicate constructor (of one requested type) not found")
			continue
		}
		var lit *ssa.Function // the one closure the constructor returns; nil: the constructor is interpreted itself
		if len(ctor.AnonFuncs) == 1 {
			lit = ctor.AnonFuncs[0]
		}
		bad := ""
		runs := 0
		for _, same := range []bool{true, false} {
			for _, impl := range []bool{true, false} {
				captured := absint.NewTok("T:captured", "type")
				var implAsked []string
				build := func() (absint.Oracle, []absint.Value, []absint.Value) {
					t := newTbl(c)
					m := absint.NewTok("m", "meta")
					mb := absint.NewTok("m.Base", "base")
					mv := absint.NewTok("m.Value", "rvalue")
					m.Fields["Base"], mb.Fields["Value"] = mb, mv
					mty := absint.NewTok("T:m", "type")
					if same {
						mty = captured
					}
					mb.Fields["Type"] = mty
					t.ext["(reflect.Value).Type"] = func(ip *absint.Interp, a []absint.Value) absint.Value {
						if a[0] != absint.Value(mv) {
							panic(&absint.Undecided{Msg: "Type() of something that is not the candidate's Value"})
						}
						return mty
					}
					implAsked = nil
					t.invokeN["Implements"] = func(ip *absint.Interp, a []absint.Value) absint.Value {
						implAsked = append(implAsked, absint.Show(a[0])+" implements "+absint.Show(a[1]))
						return absint.Bool(impl)
					}
					t.invokeN["AssignableTo"] = func(ip *absint.Interp, a []absint.Value) absint.Value { return absint.Bool(true) }
					t.invokeN["ConvertibleTo"] = func(ip *absint.Interp, a []absint.Value) absint.Value { return absint.Bool(true) }
					return t, []absint.Value{m}, []absint.Value{captured}
				}
				check := func(ip *absint.Interp, out absint.Outcome) {
					got, ok := absint.Value(nil), false
					if len(out.Ret) == 1 {
						got, ok = out.Ret[0], true
					}
					want := same
					if pn == "InterfaceType" {
						want = impl
						if len(implAsked) != 1 || !strings.HasSuffix(implAsked[0], "implements T:captured") {
							bad = fmt.Sprintf("Implements is not asked exactly once about the captured interface: %v", implAsked)
						}
					} else if len(implAsked) != 0 {
						bad = "pointer predicate consults Implements"
					}
					if !ok || got != absint.Value(absint.Bool(want)) || out.Panic != nil {
						bad = fmt.Sprintf("sameType=%v implements=%v => %s, want %v", same, impl, showOutcome(out), want)
					}
				}
				if lit == nil {
					// a predicate made of something else than one closure (a matcher object's method value): the
					// constructor is interpreted on the requested type, then what it returns is applied to the candidate
					orc, args, bd := build()
					ip := absint.New(orc)
					ip.IsLog, ip.InScope = core.IsLogCall, c.InScope
					out := ip.Run(ctor, []absint.Value{bd[0]}, nil)
					if out.Undecided == nil && out.Panic == nil && len(out.Ret) == 1 {
						switch f := out.Ret[0].(type) {
						case *absint.Closure:
							out = ip.Run(f.Fn, args, f.Bind)
						case *ssa.Function:
							out = ip.Run(f, args, nil)
						default:
							out = absint.Outcome{Undecided: &absint.Undecided{Msg: "the constructor did not return a function"}}
						}
					}
					runs++
					if out.Undecided != nil {
						bad = "left the model: " + out.Undecided.Msg
					} else {
						check(ip, out)
					}
					continue
				}
				// FreeVars are captured by value here (typ is a parameter never reassigned): bind directly or via cell
				var u string
				n := 0
				if len(lit.FreeVars) == 1 {
					if _, isPtr := lit.FreeVars[0].Type().Underlying().(*types.Pointer); isPtr && !types.IsInterface(lit.FreeVars[0].Type()) {
						b2 := build
						build = func() (absint.Oracle, []absint.Value, []absint.Value) {
							o, a, bd := b2()
							return o, a, []absint.Value{&absint.Cell{V: bd[0]}}
						}
					}
				}
				n, u = runTable(c, lit, build, check)
				runs += n
				if u != "" {
					bad = "left the model: " + u
				}
			}
		}
		what := "identity of the component's reflect.Type with the requested type"
		if pn == "InterfaceType" {
			what = "Implements(<requested interface>) on the component's reflect.Type"
		}
		r.Check(bad == "", "C06.R2", cons, c.FnPos(ctor), fmt.Sprintf("the predicate is exactly %s (%d abstract runs) %s", what, runs, bad))
	}
	// FuncName / FuncNameAndResult: the constructor is interpreted, then the predicate it returns is applied to a
	// candidate whose reflect surface is modelled (whatever closures / helpers the predicate is made of)
	apply := func(ctor *ssa.Function, ctorArgs []absint.Value, t *tbl, m absint.Value) absint.Outcome {
		ip := absint.New(t)
		ip.IsLog = core.IsLogCall
		ip.InScope = c.InScope
		out := ip.Run(ctor, ctorArgs, nil)
		if out.Undecided != nil || out.Panic != nil || len(out.Ret) != 1 {
			return out
		}
		switch f := out.Ret[0].(type) {
		case *absint.Closure:
			return ip.Run(f.Fn, []absint.Value{m}, f.Bind)
		case *ssa.Function:
			return ip.Run(f, []absint.Value{m}, nil)
		}
		return absint.Outcome{Undecided: &absint.Undecided{Msg: "the constructor did not return a function"}}
	}
	if ctor := c.Func("container", "FuncName"); ctor != nil {
		bad := ""
		runs := 0
		for _, has := range []bool{true, false} {
			for _, numOut := range []int64{0, 1} {
				for _, valid := range []bool{true, false} {
					var asked []string
					t := newTbl(c)
					m := absint.NewTok("m", "meta")
					t.invokeN["MethodByName"] = func(ip *absint.Interp, a []absint.Value) absint.Value {
						asked = append(asked, absint.Show(a[1]))
						mt := absint.NewTok("method", "rmethod")
						mt.Fields["Type"] = absint.NewTok("method.Type", "type")
						return absint.Tuple{mt, absint.Bool(has)}
					}
					t.ext["(reflect.Value).MethodByName"] = func(ip *absint.Interp, a []absint.Value) absint.Value {
						asked = append(asked, absint.Show(a[1]))
						return absint.NewTok("methodValue", "rvalue")
					}
					t.ext["(reflect.Value).IsValid"] = func(ip *absint.Interp, a []absint.Value) absint.Value { return absint.Bool(valid && has) }
					t.invokeN["NumOut"] = func(ip *absint.Interp, a []absint.Value) absint.Value { return absint.Int(numOut) }
					out := apply(ctor, []absint.Value{absint.Str("wanted")}, t, m)
					runs++
					want := has && numOut == 0 && valid
					okName := len(asked) > 0
					for _, a := range asked {
						if a != "\"wanted\"" {
							okName = false
						}
					}
					switch {
					case out.Undecided != nil:
						bad = "left the model: " + out.Undecided.Msg
					case out.Panic != nil || len(out.Ret) != 1 || out.Ret[0] != absint.Value(absint.Bool(want)) || !okName:
						bad = fmt.Sprintf("hasMethod=%v numOut=%d valid=%v asked=%v => %s, want %v", has, numOut, valid, asked, showOutcome(out), want)
					}
				}
			}
		}
		r.Check(bad == "", "C06.R2", "predicate:container.FuncName:table", c.FnPos(ctor), fmt.Sprintf("FuncName accepts exactly the components that have a method of the requested name without results, looked up by that name (%d abstract runs) %s", runs, bad))
	} else {
		r.Undecided("C06.R2", "predicate:container.FuncName:table", "", "container.FuncName not found")
	}
	if ctor := c.Func("container", "FuncNameAndResult"); ctor != nil {
		bad := ""
		runs := 0
		for _, valid := range []bool{true, false} {
			for _, wantRes := range []string{"*", "", "x"} {
				for _, nRes := range []int{0, 1} {
					for _, match := range []bool{true, false} {
						for _, parseErr := range []bool{true, false} {
							var asked []string
							called := 0
							t := newTbl(c)
							m := absint.NewTok("m", "meta")
							parsed := absint.NewTok("parsed("+wantRes+")", "any")
							t.invokeN["MethodByName"] = func(ip *absint.Interp, a []absint.Value) absint.Value {
								asked = append(asked, absint.Show(a[1]))
								mt := absint.NewTok("method", "rmethod")
								mt.Fields["Type"] = absint.NewTok("method.Type", "type")
								return absint.Tuple{mt, absint.Bool(valid)}
							}
							t.invokeN["NumOut"] = func(ip *absint.Interp, a []absint.Value) absint.Value { return absint.Int(int64(nRes)) }
							t.ext["(reflect.Value).MethodByName"] = func(ip *absint.Interp, a []absint.Value) absint.Value {
								asked = append(asked, absint.Show(a[1]))
								return absint.NewTok("methodValue", "rvalue")
							}
							t.ext["(reflect.Value).IsValid"] = func(ip *absint.Interp, a []absint.Value) absint.Value { return absint.Bool(valid) }
							t.ext["(reflect.Value).Call"] = func(ip *absint.Interp, a []absint.Value) absint.Value {
								called++
								if !valid {
									panic(&absint.GoPanic{Msg: "reflect: call of reflect.Value.Call on zero Value"})
								}
								l := &absint.List{}
								for i := 0; i < nRes; i++ {
									l.Elems = append(l.Elems, absint.NewTok("result", "rvalue"))
								}
								return l
							}
							t.ext["(reflect.Value).Interface"] = func(ip *absint.Interp, a []absint.Value) absint.Value {
								switch {
								case !match:
									return absint.NewTok("other", "any")
								case parseErr:
									return absint.Str(wantRes)
								}
								return parsed
							}
							t.ext["github.com/go-kid/strconv2.ParseAny"] = func(ip *absint.Interp, a []absint.Value) absint.Value {
								if parseErr {
									return absint.Tuple{absint.Nil{}, t.newErr("parse")}
								}
								return absint.Tuple{parsed, absint.Nil{}}
							}
							out := apply(ctor, []absint.Value{absint.Str("wanted"), absint.Str(wantRes)}, t, m)
							runs++
							var want bool
							switch {
							case !valid:
								want = false
							case wantRes == "*":
								want = true
							case nRes == 0:
								want = wantRes == ""
							default:
								want = match
							}
							okName := len(asked) > 0
							for _, a := range asked {
								if a != "\"wanted\"" {
									okName = false
								}
							}
							w := fmt.Sprintf("valid=%v result=%q results=%d equal=%v parseErr=%v asked=%v calls=%d => %s, want %v", valid, wantRes, nRes, match, parseErr, asked, called, showOutcome(out), want)
							switch {
							case out.Undecided != nil:
								bad = "left the model: " + out.Undecided.Msg
							case out.Panic != nil || len(out.Ret) != 1 || out.Ret[0] != absint.Value(absint.Bool(want)) || !okName || called > 1:
								bad = w
							}
						}
					}
				}
			}
		}
		// the verdict belongs to the component, not to the option: one option applied to two components of one type
		// whose methods answer differently judges each by its own answer, in either order
		for _, firstMatches := range []bool{true, false} {
			t := newTbl(c)
			parsed := absint.NewTok("parsed(x)", "any")
			sameType := absint.NewTok("T:shared", "type")
			mk := func(id string) *absint.Tok {
				m := absint.NewTok(id, "meta")
				b := absint.NewTok(id+".Base", "base")
				b.Fields["Type"], b.Fields["Value"] = sameType, absint.NewTok(id+".Value", "rvalue")
				m.Fields["Base"] = b
				return m
			}
			ms := []*absint.Tok{mk("m1"), mk("m2")}
			matches := map[string]bool{"m1": firstMatches, "m2": !firstMatches}
			owner := func(v absint.Value) string {
				if tk, ok := v.(*absint.Tok); ok {
					return strings.SplitN(strings.TrimPrefix(tk.ID, "method:"), ".", 2)[0]
				}
				return ""
			}
			t.ext["(reflect.Value).MethodByName"] = func(ip *absint.Interp, a []absint.Value) absint.Value {
				return absint.NewTok("method:"+owner(a[0]), "rvalue")
			}
			t.ext["(reflect.Value).IsValid"] = func(ip *absint.Interp, a []absint.Value) absint.Value { return absint.Bool(true) }
			t.ext["(reflect.Value).Call"] = func(ip *absint.Interp, a []absint.Value) absint.Value {
				return &absint.List{Elems: []absint.Value{absint.NewTok("method:"+owner(a[0])+".result", "rvalue")}}
			}
			t.ext["(reflect.Value).Interface"] = func(ip *absint.Interp, a []absint.Value) absint.Value {
				if matches[owner(a[0])] {
					return parsed
				}
				return absint.NewTok("other", "any")
			}
			t.ext["github.com/go-kid/strconv2.ParseAny"] = func(ip *absint.Interp, a []absint.Value) absint.Value {
				return absint.Tuple{parsed, absint.Nil{}}
			}
			ip := absint.New(t)
			ip.IsLog, ip.InScope = core.IsLogCall, c.InScope
			out := ip.Run(ctor, []absint.Value{absint.Str("wanted"), absint.Str("x")}, nil)
			runs++
			var verdicts []string
			for _, m := range ms {
				if out.Undecided != nil || out.Panic != nil || len(out.Ret) != 1 {
					break
				}
				var o2 absint.Outcome
				switch f := out.Ret[0].(type) {
				case *absint.Closure:
					o2 = ip.Run(f.Fn, []absint.Value{m}, f.Bind)
				case *ssa.Function:
					o2 = ip.Run(f, []absint.Value{m}, nil)
				}
				if o2.Undecided != nil {
					bad = "left the model (two components of one type): " + o2.Undecided.Msg
				}
				verdicts = append(verdicts, showOutcome(o2))
			}
			if want := fmt.Sprintf("[(%v) (%v)]", firstMatches, !firstMatches); bad == "" && fmt.Sprint(verdicts) != want {
				bad = fmt.Sprintf("one option applied to two components of the same type whose methods return (matching=%v, matching=%v): verdicts %v, want %s", firstMatches, !firstMatches, verdicts, want)
			}
		}
		r.Check(bad == "", "C06.R2", "predicate:container.FuncNameAndResult:table", c.FnPos(ctor), fmt.Sprintf("FuncNameAndResult accepts exactly the components whose method of the requested name returns the requested result ('*' any, '' also none), calling it at most once (%d abstract runs) %s", runs, bad))
	} else {
		r.Undecided("C06.R2", "predicate:container.FuncNameAndResult:table", "", "container.FuncNameAndResult not found")
	}
}

// ---- And / Or tables (R4) -----------------------------------------------------------------------------------

func combinatorTables(c *core.Ctx, r *core.Report) {
	for _, name := range []string{"And", "Or"} {
		ctor := c.Func("container", name)
		cons := "combinator:container." + name
		if ctor == nil || len(ctor.Params) != 1 {
			r.Undecided("C06.R4", cons, "", "combinator constructor (taking the options) not found")
			continue
		}
		// constructor-driven: interpret the constructor on the option list, then whatever function value it returns
		// (a literal, a method value, ...) on a component
		bad := ""
		runs := 0
		var lit *ssa.Function
		for n := 0; n <= 3 && bad == ""; n++ {
			for mask := 0; mask < 1<<n && bad == ""; mask++ {
				t := newTbl(c)
				opts := &absint.List{IsNil: n == 0}
				for i := 0; i < n; i++ {
					o := absint.NewTok(fmt.Sprintf("opt%d", i), "option")
					o.Attr["v"] = absint.Bool(mask>>i&1 == 1)
					opts.Elems = append(opts.Elems, o)
				}
				t.dynamic = func(ip *absint.Interp, fn absint.Value, a []absint.Value) (absint.Value, bool) {
					if o, ok := fn.(*absint.Tok); ok && o.Class == "option" {
						return o.Attr["v"], true
					}
					return nil, false
				}
				ip := absint.New(t)
				ip.IsLog, ip.InScope = core.IsLogCall, c.InScope
				out := ip.Run(ctor, []absint.Value{opts}, nil)
				runs++
				if out.Undecided == nil && out.Panic == nil && len(out.Ret) == 1 {
					switch f := out.Ret[0].(type) {
					case *absint.Closure:
						lit = resolveWrapper(f.Fn)
						out = ip.Run(f.Fn, []absint.Value{absint.NewTok("m", "meta")}, f.Bind)
					case *ssa.Function:
						lit = f
						out = ip.Run(f, []absint.Value{absint.NewTok("m", "meta")}, nil)
					default:
						out = absint.Outcome{Undecided: &absint.Undecided{Msg: "the constructor did not return a function"}}
					}
				}
				want := name == "And"
				for i := 0; i < n; i++ {
					v := mask>>i&1 == 1
					if name == "And" {
						want = want && v
					} else {
						want = want || v
					}
				}
				switch {
				case out.Undecided != nil:
					bad = "left the model: " + out.Undecided.Msg
				case out.Panic != nil || len(out.Ret) != 1 || out.Ret[0] != absint.Value(absint.Bool(want)):
					bad = fmt.Sprintf("n=%d truth=%0*b => %s, want %v", n, n, mask, showOutcome(out), want)
				}
			}
		}
		if lit == nil {
			lit = ctor
		}
		smallModelCheck(c, r, "C06.R4", cons, lit, 3)
		r.Check(bad == "", "C06.R4", cons, c.FnPos(ctor), fmt.Sprintf("%s is the %s of its options on all %d truth assignments of up to 3 options %s", name, map[string]string{"And": "conjunction", "Or": "disjunction"}[name], runs, bad))
	}
}

// ---- registry scan table (R3) and keyed lookup (C07.R2) ---------------------------------------------------

type defRegRun struct {
	visited []string
	keys    []string
}

func definitionRegistryTables(c *core.Ctx, r *core.Report, rule3, rule72 string) {
	impls := c.Implementors(c.Iface("container", "DefinitionRegistry"))
	if !r.Floor(rule3, "DefinitionRegistry implementations", len(impls), 1) {
		return
	}
	sync2Map := c.Named("util/sync2", "Map")
	rng, load := c.DeclaredMethod(sync2Map, "Range"), c.DeclaredMethod(sync2Map, "Load")
	fAnd := c.Func("container", "And")
	for _, T := range impls {
		getMetas := c.DeclaredMethod(T, "GetMetas")
		byName := c.DeclaredMethod(T, "GetMetaByName")
		if rule3 != "" && getMetas != nil {
			bad := ""
			runs := 0
			scanConsulted := false
			for mask := 0; mask < 8; mask++ {
				for nopts := 0; nopts <= 2; nopts++ {
					var run *defRegRun
					build := func() (absint.Oracle, []absint.Value, []absint.Value) {
						run = &defRegRun{}
						t := newTbl(c)
						self := absint.NewTok("reg", "registry")
						stored := []*absint.Tok{absint.NewTok("D0", "meta"), absint.NewTok("D1", "meta"), absint.NewTok("D2", "meta")}
						opts := &absint.List{IsNil: nopts == 0}
						for i := 0; i < nopts; i++ {
							opts.Elems = append(opts.Elems, absint.NewTok(fmt.Sprintf("opt%d", i), "option"))
						}
						t.callee[rng] = func(ip *absint.Interp, a []absint.Value) absint.Value {
							scanConsulted = true
							for i, m := range stored {
								run.visited = append(run.visited, m.ID)
								cont, ok := ip.CallValue(a[1], absint.NewTok(fmt.Sprintf("k%d", i), "key"), m).(absint.Bool)
								if !ok {
									panic(&absint.Undecided{Msg: "Range callback did not return a boolean"})
								}
								if !bool(cont) {
									break
								}
							}
							return nil
						}
						t.dynamic = func(ip *absint.Interp, fn absint.Value, a []absint.Value) (absint.Value, bool) {
							if o, ok := fn.(*absint.Tok); ok && o.Class == "option" {
								m := a[0].(*absint.Tok)
								idx := int(m.ID[1] - '0')
								// option 0 accepts by mask; option 1 accepts everything but D2
								if o.ID == "opt0" {
									return absint.Bool(mask>>idx&1 == 1), true
								}
								return absint.Bool(idx != 2), true
							}
							return nil, false
						}
						_ = fAnd
						return t, []absint.Value{self, opts}, nil
					}
					check := func(ip *absint.Interp, out absint.Outcome) {
						var want []string
						for i := 0; i < 3; i++ {
							acc := true
							if nopts >= 1 && mask>>i&1 == 0 {
								acc = false
							}
							if nopts >= 2 && i == 2 {
								acc = false
							}
							if acc {
								want = append(want, fmt.Sprintf("D%d", i))
							}
						}
						var got []string
						if len(out.Ret) == 1 {
							if l, ok := out.Ret[0].(*absint.List); ok {
								for _, e := range l.Elems {
									got = append(got, absint.Show(e))
								}
							}
						}
						sort.Strings(got)
						if out.Panic != nil || strings.Join(got, ",") != strings.Join(want, ",") || len(run.visited) != 3 {
							bad = fmt.Sprintf("options=%d accept-mask=%03b visited=%v => %v, want %v", nopts, mask, run.visited, got, want)
						}
					}
					k, u := runTable(c, getMetas, build, check)
					runs += k
					if u != "" {
						bad = "left the model: " + u
					}
				}
			}
			smallModelCheck(c, r, rule3, "full-scan@"+core.FnName(getMetas), getMetas, 3)
			// structural: the Range callback keeps the iteration going on every path
			for _, ci := range core.Calls(getMetas) {
				if !core.IsCallTo(ci.Common(), rng) {
					continue
				}
				cb := core.ClosureOf(ci.Common().Args[len(ci.Common().Args)-1])
				allTrue := cb != nil
				if cb != nil {
					for _, ret := range core.Returns(cb) {
						k, isK := ret.Results[0].(*ssa.Const)
						if !isK || k.Value == nil || k.Value.String() != "true" {
							allTrue = false
						}
					}
				}
				r.Check(allTrue, rule3, "range-callback-continues@"+core.FnName(getMetas), c.Pos(ci.Pos()), "the scan callback returns the constant true on every path: the iteration is never cut short")
			}
			if bad != "" && (!scanConsulted || strings.HasPrefix(bad, "left the model")) {
				// another representation than the sync2.Map the table above watches (its Range was never asked, or the
				// routine left the model): the registry observed through its own methods only
				if b2, r2 := definitionRegistryByStateMemo(c, T); b2 == "" && r2 > 0 {
					bad, runs = "", runs+r2
				} else {
					bad += " | observed through its own methods: " + b2
				}
			}
			r.Check(bad == "", rule3, "full-scan@"+core.FnName(getMetas), c.FnPos(getMetas), fmt.Sprintf("GetMetas visits every stored definition and returns exactly those accepted by all options, each once (%d abstract runs) %s", runs, bad))
		}
		if rule72 != "" && byName != nil {
			bad := ""
			runs := 0
			loadConsulted := false
			for _, hit := range []bool{true, false} {
				var keys []string
				build := func() (absint.Oracle, []absint.Value, []absint.Value) {
					keys = nil
					t := newTbl(c)
					if rng != nil {
						t.callee[rng] = func(ip *absint.Interp, a []absint.Value) absint.Value {
							loadConsulted = true
							keys = append(keys, "<scan of all definitions>")
							ip.CallValue(a[len(a)-1], absint.NewTok("otherKey", "key"), absint.NewTok("Decoy", "meta"))
							return nil
						}
					}
					t.callee[load] = func(ip *absint.Interp, a []absint.Value) absint.Value {
						loadConsulted = true
						keys = append(keys, absint.Show(a[1]))
						if hit {
							return absint.Tuple{absint.NewTok("D", "meta"), absint.Bool(true)}
						}
						return absint.Tuple{absint.Nil{}, absint.Bool(false)}
					}
					return t, []absint.Value{absint.NewTok("reg", "registry"), absint.NewTok("wanted", "key")}, nil
				}
				check := func(ip *absint.Interp, out absint.Outcome) {
					ok := out.Panic == nil && len(out.Ret) == 1 && len(keys) == 1 && keys[0] == "wanted"
					if ok && hit {
						ok = isTokID(out.Ret[0], "D")
					}
					if ok && !hit {
						_, ok = out.Ret[0].(absint.Nil)
					}
					if !ok {
						bad = fmt.Sprintf("hit=%v keys=%v => %s", hit, keys, showOutcome(out))
					}
				}
				k, u := runTable(c, byName, build, check)
				runs += k
				if u != "" {
					bad = "left the model: " + u
				}
			}
			if bad != "" && (!loadConsulted || strings.HasPrefix(bad, "left the model")) {
				if b2, r2 := definitionRegistryByStateMemo(c, T); b2 == "" && r2 > 0 {
					bad = ""
				} else {
					bad += " | observed through its own methods: " + b2
				}
			}
			r.Check(bad == "", rule72, "keyed-lookup@"+core.FnName(byName), c.FnPos(byName), "GetMetaByName is one load keyed by its argument; nil on a miss "+bad)
		}
	}
}

func c06(c *core.Ctx, r *core.Report) {
	r.Explanation = "C06 type-directed injection: decision tables by abstract interpretation (symbolic tokens for types, candidates and options; registry queries, reflect.Type methods and option constructors answered by oracles that record what they are asked): (R1) each dependency processor's PostProcessProperties on every tag x tag value x field shape {*T, I, []*T, []I, other kinds}: unnamed pointer points query Type(<ptr type>), interface points InterfaceType(<iface>), the func tag adds FuncName / Or(FuncNameAndResult...), other kinds and foreign tags cause nothing, and a point preceded by another point of the same tag (unnamed, or naming a missing component) is treated exactly as when processed alone (row independent); (R2) the Type / InterfaceType predicates are exactly type identity / Implements, the func predicates look the method up by name; (R3) the definition registry's GetMetas visits every stored definition and returns exactly those all options accept; (R4) And / Or truth tables; (R5) the slice fill of Inject is a bijection and (R7) excludes the holder (Inject table); (R6) narrowing only removes candidates (narrowing table). Decides that the candidate set is sound and complete by construction; reflect's own semantics are trusted."
	r.Assumptions = []string{"reflect.Type identity/Implements/AssignableTo are correct", "sync2.Map.Range visits every stored entry once when the callback keeps returning true (C20)"}
	ps := builtinProcessors(c)
	deps := withRole(ps, "dep", false)
	r.Count("dependency_processors", len(deps))
	r.Floor("C06.R1", "dependency processors (registered + sibling)", len(deps), 2)
	total := 0
	for _, p := range deps {
		rs, runs, _, und := depProcessorTable(c, p)
		total += runs
		cons := "query-table:" + p.Name()
		if und != "" {
			r.Undecided("C06.R1", cons, c.FnPos(p.Props), "abstract interpretation left the model: "+und)
			continue
		}
		smallModelCheck(c, r, "C06.R1", cons, p.Props, 2)
		rs.report(c, r, p.Props, func(row string) string {
			switch row {
			case "by-type-pointer", "by-type-interface", "unsupported-kind", "func-predicate", "no-error", "foreign-tag", "independent", "unshared":
				return "C06.R1"
			}
			return ""
		}, cons, depRows, "func-predicate", "by-name", "by-name-guard", "by-name-slice")
	}
	r.Count("query_table_runs", total)
	predicateTables(c, r)
	definitionRegistryTables(c, r, "C06.R3", "")
	combinatorTables(c, r)
	// R5 / R7: Inject table
	irs, iruns, iund := injectTable(c, listLen(c))
	r.Count("inject_table_runs", iruns)
	if iund != "" {
		r.Undecided("C06.R5", "inject-table", "", "abstract interpretation left the model: "+iund)
	} else {
		irs.report(c, r, c.Roles().PropertyInject, func(row string) string {
			switch row {
			case "slice":
				return "C06.R5"
			case "single", "nothing-to-inject":
				return "C06.R7"
			}
			return ""
		}, "inject-table@(*component_definition.Property).Inject", injectRows)
	}
	isSelfTable(c, r, "C06.R7")
	// R6: narrowing is a subset
	if fn, _, _ := narrowingFn(c, ps); fn != nil {
		nrs, nruns, nund := narrowTable(c, fn, 3) // the holder next to two other candidates is the smallest list on which a single-valued point has a choice
		r.Count("narrowing_table_runs", nruns)
		if nund != "" {
			r.Undecided("C06.R6", "narrowing-table", c.FnPos(fn), "abstract interpretation left the model: "+nund)
		} else {
			nrs.report(c, r, fn, func(row string) string {
				switch row {
				case "slice-exact", "single-member", "never-self", "no-panic":
					return "C06.R6"
				}
				return ""
			}, "narrowing-table@"+core.FnName(fn), narrowRows)
		}
	} else {
		r.Undecided("C06.R6", "role:narrowing", "", "narrowing function not found")
	}
	r.Exhaustive = true
}

// isSelfTable: Meta.IsSelf is address identity between the holder's value and the candidate's original address,
// independent of names; NewBase records the value, its type and its address.
func isSelfTable(c *core.Ctx, r *core.Report, rule string) {
	meta := c.Named("component_definition", "Meta")
	isSelf := c.DeclaredMethod(meta, "IsSelf")
	if isSelf == nil {
		r.Undecided(rule, "role:IsSelf", "", "Meta.IsSelf not found")
		return
	}
	bad := ""
	runs := 0
	for _, sameAddr := range []bool{true, false} {
		for _, sameName := range []bool{true, false} {
			for _, sameAlias := range []bool{true, false} {
				build := func() (absint.Oracle, []absint.Value, []absint.Value) {
					t := newTbl(c)
					mk := func(id string, addr int64, name, alias string) *absint.Tok {
						m := absint.NewTok(id, "meta")
						b := absint.NewTok(id+".Base", "base")
						v := absint.NewTok(id+".Value", "rvalue")
						v.Attr["addr"] = absint.Int(addr)
						b.Fields["Value"], b.Fields["originAddress"], b.Fields["Type"] = v, absint.Int(addr), absint.NewTok("T:"+id, "type")
						m.Fields["Base"], m.Fields["name"], m.Fields["alias"] = b, absint.Str(name), absint.Str(alias)
						m.Fields["Raw"] = absint.NewTok(id+".Raw", "raw")
						return m
					}
					h := mk("holder", 100, "pkg/T", "h")
					oa, on, ol := int64(200), "pkg/U", "o"
					if sameAddr {
						oa = 100
					}
					if sameName {
						on = "pkg/T"
					}
					if sameAlias {
						ol = "h"
					}
					o := mk("other", oa, on, ol)
					t.ext["(reflect.Value).Pointer"] = func(ip *absint.Interp, a []absint.Value) absint.Value {
						if v, ok := a[0].(*absint.Tok); ok && v.Attr["addr"] != nil {
							return v.Attr["addr"]
						}
						panic(&absint.Undecided{Msg: "Pointer() of something that is not a definition's Value"})
					}
					t.ext["(reflect.Value).UnsafePointer"] = t.ext["(reflect.Value).Pointer"]
					return t, []absint.Value{h, o}, nil
				}
				check := func(ip *absint.Interp, out absint.Outcome) {
					if out.Panic != nil || len(out.Ret) != 1 || out.Ret[0] != absint.Value(absint.Bool(sameAddr)) {
						bad = fmt.Sprintf("sameAddress=%v sameTypeName=%v sameCustomName=%v => %s, want %v", sameAddr, sameName, sameAlias, showOutcome(out), sameAddr)
					}
				}
				k, u := runTable(c, isSelf, build, check)
				runs += k
				if u != "" {
					bad = "left the model: " + u
				}
			}
		}
	}
	r.Check(bad == "", rule, "IsSelf-table@"+core.FnName(isSelf), c.FnPos(isSelf), fmt.Sprintf("IsSelf is exactly address identity of the holder's value with the candidate's original address, whatever their type or custom names (%d abstract runs) %s", runs, bad))
	// NewBase
	nb := c.Func("component_definition", "NewBase")
	if nb == nil {
		r.Undecided(rule, "role:NewBase", "", "component_definition.NewBase not found")
		return
	}
	bad = ""
	build := func() (absint.Oracle, []absint.Value, []absint.Value) {
		t := newTbl(c)
		t.ext["reflect.ValueOf"] = func(ip *absint.Interp, a []absint.Value) absint.Value {
			v := absint.NewTok("V("+absint.Show(a[0])+")", "rvalue")
			return v
		}
		t.ext["reflect.TypeOf"] = func(ip *absint.Interp, a []absint.Value) absint.Value {
			return absint.NewTok("T("+absint.Show(a[0])+")", "type")
		}
		t.ext["(reflect.Value).Pointer"] = func(ip *absint.Interp, a []absint.Value) absint.Value {
			if isTokID(a[0], "V(component)") {
				return absint.Int(777)
			}
			return absint.Int(-1)
		}
		return t, []absint.Value{absint.NewTok("component", "component")}, nil
	}
	check := func(ip *absint.Interp, out absint.Outcome) {
		ok := out.Panic == nil && len(out.Ret) == 1
		if ok {
			b, isT := out.Ret[0].(*absint.Tok)
			ok = isT && isTokID(b.Fields["Value"], "V(component)") && isTokID(b.Fields["Type"], "T(component)") && b.Fields["originAddress"] == absint.Value(absint.Int(777))
		}
		if !ok {
			bad = showOutcome(out)
		}
	}
	if _, u := runTable(c, nb, build, check); u != "" {
		bad = "left the model: " + u
	}
	r.Check(bad == "", rule, "NewBase-table@"+core.FnName(nb), c.FnPos(nb), "NewBase records the component's reflect value, its type and that value's address "+bad)
}
