package rules

import (
	"fmt"
	"go/types"
	"sort"
	"strings"

	"golang.org/x/tools/go/ssa"

	"iocvet/internal/absint"
	"iocvet/internal/core"
)

func init() { register("C12", c12) }

// ---- sorter oracle --------------------------------------------------------------------------------

type sorterOracle struct {
	absint.BaseOracle
	c            *core.Ctx
	ordered      types.Type
	priority     types.Type
	sortFn       *ssa.Function // sort2.Slice origin
	sortFnOpaque bool          // model sort2.Slice itself instead of interpreting its body down to sort.Slice
	cmpBad       []string
}

func (o *sorterOracle) TypeTest(ip *absint.Interp, v absint.Value, T types.Type) (bool, bool) {
	t, ok := v.(*absint.Tok)
	if !ok {
		return false, false
	}
	switch {
	case types.Identical(T, o.ordered):
		return t.Class == "P" || t.Class == "O", true
	case types.Identical(T, o.priority):
		return t.Class == "P" || t.Class == "Q", true
	}
	return false, false
}

func (o *sorterOracle) Call(ip *absint.Interp, site ssa.CallInstruction, args []absint.Value) (absint.Value, bool) {
	com := site.Common()
	if com.IsInvoke() && com.Method.Name() == "Order" {
		t, ok := args[0].(*absint.Tok)
		if !ok {
			return nil, false
		}
		return t.Attr["order"], true
	}
	if core.IsExtCall(com, "sort.Slice") || core.IsExtCall(com, "sort.SliceStable") {
		// the standard sorts, modelled as a stable insertion sort under the interpreted index comparator
		l, ok := args[0].(*absint.List)
		if !ok {
			return nil, false
		}
		n := len(l.Elems)
		less := func(i, j int) bool {
			r, ok := ip.CallValue(args[1], absint.Int(i), absint.Int(j)).(absint.Bool)
			if !ok {
				panic(&absint.Undecided{Msg: "index comparator did not return a boolean"})
			}
			return bool(r)
		}
		for i := 0; i < n; i++ {
			for j := 0; j < n; j++ {
				o.checkLess(l.Elems[i], l.Elems[j], less(i, j))
			}
		}
		for i := 1; i < n; i++ {
			for j := i; j > 0 && less(j, j-1); j-- {
				l.Elems[j], l.Elems[j-1] = l.Elems[j-1], l.Elems[j]
			}
		}
		return nil, true
	}
	if core.IsExtCall(com, "sort.Sort") || core.IsExtCall(com, "sort.Stable") {
		// the standard sorts over a Len/Less/Swap value: a stable insertion sort under the value's own interpreted
		// methods; Less must be a strict order on the positions (irreflexive, asymmetric)
		t := &tbl{c: o.c, sortStrictBad: &o.cmpBad}
		t.sortInterface(ip, args[0])
		return nil, true
	}
	if core.IsCallTo(com, o.sortFn) {
		l, ok := args[0].(*absint.List)
		if !ok {
			return nil, false
		}
		less := func(a, b absint.Value) bool {
			r, ok := ip.CallValue(args[1], a, b).(absint.Bool)
			if !ok {
				panic(&absint.Undecided{Msg: "comparator did not return a boolean"})
			}
			return bool(r)
		}
		for _, a := range l.Elems {
			for _, b := range l.Elems {
				o.checkLess(a, b, less(a, b))
			}
		}
		if !o.sortFnOpaque {
			return nil, false // interpret its body down to the standard library's sort
		}
		// stable insertion sort in place under the interpreted comparator
		for i := 1; i < len(l.Elems); i++ {
			for j := i; j > 0 && less(l.Elems[j], l.Elems[j-1]); j-- {
				l.Elems[j], l.Elems[j-1] = l.Elems[j-1], l.Elems[j]
			}
		}
		return nil, true
	}
	return nil, false
}

// checkLess: the comparator handed to the sort is the strict order on Order values - sort.Slice requires a strict weak
// ordering (a comparator answering true for equal keys makes the result depend on the algorithm: ties come out reversed).
func (o *sorterOracle) checkLess(a, b absint.Value, got bool) {
	ta, ok1 := a.(*absint.Tok)
	tb, ok2 := b.(*absint.Tok)
	if !ok1 || !ok2 {
		return
	}
	oa, ok1 := ta.Attr["order"].(absint.Int)
	ob, ok2 := tb.Attr["order"].(absint.Int)
	if !ok1 || !ok2 {
		return
	}
	if got != (oa < ob) {
		o.cmpBad = append(o.cmpBad, fmt.Sprintf("less(%s, %s) = %v with Order %d and %d", ta.ID, tb.ID, got, int64(oa), int64(ob)))
	}
}

var sorterClasses = []string{"P", "O", "U", "Q"}
var sorterOrders = []int64{-9223372036854775808, -1, 0, 1, 9223372036854775807} // extremes: comparators written as a subtraction overflow here

func sorterKinds() (out [][2]any) {
	for _, c := range sorterClasses {
		if c == "U" {
			out = append(out, [2]any{c, int64(0)})
			continue
		}
		for _, o := range sorterOrders {
			out = append(out, [2]any{c, o})
		}
	}
	return
}

func mkSorterTok(i int, kind [2]any) *absint.Tok {
	t := absint.NewTok(fmt.Sprintf("%s%+d.%d", kind[0], kind[1], i), kind[0].(string))
	t.Attr["order"] = absint.Int(kind[1].(int64))
	return t
}

func rank(class string) int {
	switch class {
	case "P":
		return 0
	case "O":
		return 1
	}
	return 2
}

func c12(c *core.Ctx, r *core.Report) {
	ro := c.Roles()
	r.Explanation = "C12 ordering contract: (R1-R3) SortOrderedComponents is interpreted abstractly on every participant list up to the bound over {priority-ordered, ordered, unordered, priority-without-order} x Order in {-1,0,1} and the result compared with the contract (permutation, class grouping, non-decreasing Order, and the comparator handed to the sort is the strict order on Order values - equal keys compare false both ways); (R4) sort2.Slice maps the element comparator onto sort.Slice indexes faithfully; (R5) every loop that invokes post-processors, runners or loaders iterates, forward and synchronously, a slice with sorter provenance. Decides the contract's shape and its use at all call sites; does not decide sort.Slice itself or user participants' Order() purity."
	r.Assumptions = []string{"sort.Slice / sort.SliceStable sort with respect to the comparator they are given (modelled as a stable insertion sort)", "Order() of a participant is a pure function", "reflect-free: type tests answer from static class"}
	sorter := ro.Sorter
	if sorter == nil {
		r.Undecided("C12.R1", "role:Sorter", "", "framework_helper.SortOrderedComponents not found")
		return
	}
	sortFn := c.Func("util/sort2", "Slice")
	if sortFn == nil {
		r.Undecided("C12.R4", "role:sort2.Slice", "", "util/sort2.Slice not found")
		return
	}
	ordN, priN := c.Named("definition", "Ordered"), c.Named("definition", "Priority")
	if ordN == nil || priN == nil {
		r.Undecided("C12.R1", "role:Ordered/Priority", "", "definition.Ordered / definition.Priority not found")
		return
	}

	// ---- R5 call sites: every use of the sorter lies in a routine one of the tables decides
	sorterSiteRules(c, r, "C12.R5")
	sites := c.CallSites(func(com *ssa.CallCommon) bool { return core.IsCallTo(com, sorter) })

	// ---- R1-R3: interpret every instance on every abstract list
	insts := map[*ssa.Function]bool{}
	for _, s := range sites {
		insts[s.Common().StaticCallee()] = true
	}
	var instList []*ssa.Function
	for f := range insts {
		instList = append(instList, f)
	}
	sort.Slice(instList, func(i, j int) bool { return instList[i].String() < instList[j].String() })
	maxLen := 2
	if c.Tier == "thorough" {
		maxLen = 4
	}
	totalRuns := 0
	for _, inst := range instList {
		totalRuns += sorterTableFor(c, r, inst, maxLen, func(row string) string { return "C12." + row })
	}
	r.Count("sorter_abstract_runs", totalRuns)
	smallModelCheck(c, r, "C12.R1", "sorter", sorter, int64(maxLen))
	r.Exhaustive = true

	// ---- R4: sort2.Slice delegates faithfully
	c12R4(c, r, sortFn)

	// ---- R5: participants loops
	c12R5(c, r, ro, sorter)
}

func typeArgs(f *ssa.Function) string {
	var s []string
	for _, t := range f.TypeArgs() {
		s = append(s, core.Short(t.String()))
	}
	return strings.Join(s, ",")
}

func addBad(m map[string][]string, k, v string) { m[k] = append(m[k], v) }

func firstN(s []string, n int) []string {
	if len(s) > n {
		return s[:n]
	}
	return s
}

func c12R4(c *core.Ctx, r *core.Report, sortFn *ssa.Function) { c12R4On(c, r, sortFn, "C12.R4") }

func c12R4On(c *core.Ctx, r *core.Report, sortFn *ssa.Function, rule string) {
	// pick any instantiation (all share the generic body); fall back to call-site instances
	var insts []*ssa.Function
	for fn := range c.AllFns {
		if fn.Origin() == sortFn && fn.Blocks != nil {
			// (an instance inside another generic body still has a type parameter for an argument: the concrete
			// instances of that body are in the list as well)
			open := false
			for _, ta := range fn.TypeArgs() {
				if _, isTP := ta.(*types.TypeParam); isTP {
					open = true
				}
			}
			if !open {
				insts = append(insts, fn)
			}
		}
	}
	sort.Slice(insts, func(i, j int) bool { return insts[i].String() < insts[j].String() })
	if !r.Floor(rule, "instances of sort2.Slice", len(insts), 1) {
		return
	}
	for _, inst := range insts {
		// decided by interpretation: on every permutation of three elements the caller's slice ends up ordered by the
		// comparator it was given (the standard library's sorts are modelled as a stable insertion sort under the
		// interpreted comparator / Len-Less-Swap methods)
		cons := "sort2.Slice[" + typeArgs(inst) + "]"
		bad, undec, runs := "", "", 0
		var seen []string
		for _, perm := range [][]int{{0, 1, 2}, {0, 2, 1}, {1, 0, 2}, {1, 2, 0}, {2, 0, 1}, {2, 1, 0}, {1, 0}, {0}, {}} {
			t := newTbl(c)
			lessTok := absint.NewTok("less", "func")
			t.dynamic = func(ip *absint.Interp, fn absint.Value, a []absint.Value) (absint.Value, bool) {
				if fn != absint.Value(lessTok) || len(a) != 2 {
					return nil, false
				}
				x, ok1 := a[0].(*absint.Tok)
				y, ok2 := a[1].(*absint.Tok)
				if !ok1 || !ok2 {
					panic(&absint.Undecided{Msg: "element comparator called with non-elements"})
				}
				seen = append(seen, x.ID+"<"+y.ID)
				return absint.Bool(x.ID < y.ID), true
			}
			ip := absint.New(t)
			ip.IsLog = core.IsLogCall
			ip.InScope = c.InScope
			x := &absint.List{IsNil: len(perm) == 0}
			for _, i := range perm {
				x.Elems = append(x.Elems, absint.NewTok(fmt.Sprintf("e%d", i), "e"))
			}
			before := absint.Show(x)
			out := ip.Run(inst, []absint.Value{x, lessTok}, nil)
			runs++
			if out.Undecided != nil {
				undec = out.Undecided.Msg
				break
			}
			if out.Panic != nil {
				bad = before + " => panic: " + out.Panic.Msg
				break
			}
			ok := len(x.Elems) == len(perm)
			for i := 0; ok && i < len(x.Elems); i++ {
				e, isTok := x.Elems[i].(*absint.Tok)
				ok = isTok && e.ID == fmt.Sprintf("e%d", i)
			}
			if !ok {
				bad = before + " is left as " + absint.Show(x) + ", not ordered by the comparator"
				break
			}
		}
		switch {
		case undec != "":
			r.Undecided(rule, cons, c.FnPos(inst), undec)
		case bad != "":
			r.Fail(rule, cons, c.FnPos(inst), bad)
		default:
			r.Hold(rule, cons, c.FnPos(inst), fmt.Sprintf("leaves the caller's slice ordered by the given element comparator on every permutation of up to three elements (%d runs); comparisons seen: %s", runs, strings.Join(firstN(seen, 12), " ")))
		}
	}
}

// sortedProvenance: v is (a re-load of a field last stored with) a result of the sorter.
func sortedProvenance(c *core.Ctx, v ssa.Value, sorter *ssa.Function) bool {
	for i := 0; i < 4 && v != nil; i++ {
		v = core.Norm(v)
		if call, ok := v.(*ssa.Call); ok && core.IsCallTo(call.Common(), sorter) {
			return true
		}
		lv, _ := c.LocalFieldValue(v)
		if lv == nil {
			return false
		}
		v = lv
	}
	return false
}

func c12R5(c *core.Ctx, r *core.Report, ro *core.Roles, sorter *ssa.Function) {
	// (a) runners and loaders: the decision tables of the start routine (C13) and of Configure.Initialize (C15),
	// whose ordering helper oracle returns a reversed list of fresh tokens
	for _, p := range []struct {
		name string
		m    *types.Func
	}{{"ApplicationRunner.Run", ro.RunnerRun}, {"Loader.LoadConfig", ro.LoaderLoad}} {
		sites := c.CallSites(func(com *ssa.CallCommon) bool { return core.IsInvoke(com, p.m) })
		r.Floor("C12.R5", "invoke sites of "+p.name, len(sites), 1)
		for _, s := range sites {
			if _, isCall := s.(*ssa.Call); !isCall {
				r.Fail("C12.R5", p.name+"@"+core.FnName(s.Parent()), c.Pos(s.Pos()), "participant is invoked by go/defer, not synchronously")
			}
		}
	}
	maxLen := 2
	if r.Tier == "thorough" {
		maxLen = 3
	}
	subjects := startRoutines(c)
	ar, appT := c.Named("definition", "ApplicationRunner"), c.Named("app", "App")
	if r.Exactly("C12.R5", "start routines (smallest function of package app reaching Factory.Refresh and ApplicationRunner.Run)", len(subjects), 1) && ar != nil && appT != nil {
		runFn := subjects[0]
		cons := "run-table@" + core.FnName(runFn)
		if field := sliceFieldOf(appT, ar); field == "" || len(runFn.Params) != 1 {
			r.Undecided("C12.R5", cons, c.FnPos(runFn), "App has no []ApplicationRunner field, or the start routine takes parameters")
		} else if rrs, _, und := appRunTable(c, runFn, field, maxLen); und != "" {
			r.Undecided("C12.R5", cons, c.FnPos(runFn), "abstract interpretation left the model: "+und)
		} else {
			rrs.report(c, r, runFn, func(row string) string {
				if row == "runners" {
					return "C12.R5"
				}
				return ""
			}, cons, map[string]string{"runners": runRows["runners"]})
		}
	}
	nCfg := 0
	if ld := c.Named("configure", "Loader"); ld != nil {
		for _, T := range c.Implementors(c.Iface("configure", "Configure")) {
			initFn := c.DeclaredMethod(T, "Initialize")
			field := sliceFieldOf(T, ld)
			if initFn == nil || (field == "" && c.DeclaredMethod(T, "AddLoaders") == nil) {
				continue
			}
			nCfg++
			cons := "load-table@" + core.FnName(initFn)
			if lrs, _, und := loadTable(c, initFn, field, maxLen); und != "" {
				r.Undecided("C12.R5", cons, c.FnPos(initFn), "abstract interpretation left the model: "+und)
			} else {
				lrs.report(c, r, initFn, func(row string) string {
					if row == "order" {
						return "C12.R5"
					}
					return ""
				}, cons, map[string]string{"order": loadRows["order"]})
			}
		}
	}
	r.Floor("C12.R5", "Configure implementations with a loader list and Initialize", nCfg, 1)

	// (b) post-processors: the list field that the invoke loops range over
	family := []*types.Func{ro.CPBeforeInit, ro.CPAfterInit, ro.IABeforeInst, ro.IAAfterInst, ro.IAProps, ro.SmartEarlyRef}
	fields := map[core.FieldRef]bool{}
	nLoops := 0
	var covered map[*ssa.Function]bool
	for _, fn := range c.Scope {
		for _, s := range core.Calls(fn) {
			com := s.Common()
			isFam := false
			for _, m := range family {
				if core.IsInvoke(com, m) {
					isFam = true
				}
			}
			if !isFam {
				continue
			}
			// only the container's own dispatch loops (delegate), not processors calling their embedded defaults
			cons := com.Method.Name() + "@" + core.FnName(fn)
			if _, isCall := s.(*ssa.Call); !isCall {
				r.Fail("C12.R5", cons, c.Pos(s.Pos()), "post-processor is invoked by go/defer, not synchronously")
				continue
			}
			rl := core.RangeLoopOf(fn, s.Block())
			if rl == nil {
				// dispatch through a visitor / per-processor helper: the order is decided by the stage's decision table
				if covered == nil {
					covered = dispatchTables(c, r, "C12.R5")
				}
				if covered[fn] || covered[core.TopLevel(fn)] {
					nLoops++
					r.Hold("C12.R5", cons, c.Pos(s.Pos()), "dispatch site of a stage whose decision table decides the order over the dispatch list (visitor / helper form)")
				} else {
					r.Fail("C12.R5", cons, c.Pos(s.Pos()), "post-processor invoke is neither inside a forward range over a slice nor part of a stage decided by a decision table")
				}
				continue
			}
			// receiver: element or a type assertion of the element
			recv := core.Norm(com.Value)
			if ex, ok := recv.(*ssa.Extract); ok {
				if ta, ok := ex.Tuple.(*ssa.TypeAssert); ok {
					recv = core.Norm(ta.X)
				}
			}
			if ta, ok := recv.(*ssa.TypeAssert); ok {
				recv = core.Norm(ta.X)
			}
			if !rl.ElemOf(recv) {
				r.Fail("C12.R5", cons, c.Pos(s.Pos()), "invoked post-processor is not the current element of the ranged slice")
				continue
			}
			fa, ok := core.IsFieldLoad(core.Norm(rl.Slice), nil, "")
			if !ok {
				// accept any field load: find it
				if u, isU := core.Norm(rl.Slice).(*ssa.UnOp); isU {
					if f2, isFA := u.X.(*ssa.FieldAddr); isFA {
						fa, ok = f2, true
					}
				}
			}
			if !ok {
				if sortedProvenance(c, rl.Slice, sorter) {
					nLoops++
					r.Hold("C12.R5", cons, c.Pos(s.Pos()), "ranges directly over a sorter result")
				} else {
					r.Fail("C12.R5", cons, c.Pos(s.Pos()), "the ranged slice is neither the processor list field nor a sorter result")
				}
				continue
			}
			fr, _ := core.FieldOfAddr(fa)
			fields[fr] = true
			nLoops++
			r.Hold("C12.R5", cons, c.Pos(s.Pos()), "synchronous invoke of the current element of a forward range over field "+fr.Owner.Obj().Name()+"."+fr.Name)
		}
	}
	r.Count("processor_invoke_loops", nLoops)
	r.Floor("C12.R5", "post-processor invoke loops", nLoops, 5)
	// the dispatch list: filled by the bootstrap routine only, decided by its decision table
	bs, why := findBootstrap(c)
	if bs == nil {
		r.Undecided("C12.R5", "bootstrap", "", why)
		return
	}
	for fr := range fields {
		_, isIndex := derivedDispatchLists(c)[fr.Name]
		r.Check(fr.Owner == bs.owner && (fr.Name == bs.dispatch || isIndex), "C12.R5", "dispatch-list:"+fr.Owner.Obj().Name()+"."+fr.Name, c.FnPos(bs.fn),
			"every dispatch loop ranges over the one list the bootstrap routine fills in contract order ("+bs.recv.Obj().Name()+"."+bs.dispatch+")")
	}
	helpers := map[*ssa.Function]bool{}
	reachesCall(bs.fn, func(*ssa.CallCommon) bool { return false }, helpers)
	stores, _ := c.FieldAccesses(bs.owner, bs.dispatch)
	for _, st := range stores {
		if core.IsNilConst(st.Store.Val) {
			continue
		}
		// ... and a helper that writes it is called by nobody else (an exported helper of the delegate that another
		// stage also calls would let that stage extend the chain out of turn)
		top := core.TopLevel(st.Fn)
		okWriter := helpers[st.Fn] || helpers[top]
		if okWriter && top != bs.fn {
			for _, cs := range c.CallSites(func(com *ssa.CallCommon) bool { return core.IsCallTo(com, top) }) {
				if caller := core.TopLevel(cs.Parent()); !helpers[caller] && caller != bs.fn {
					okWriter = false
				}
			}
			if len(c.FuncValueUses(top)) != 0 {
				okWriter = false
			}
		}
		r.Check(okWriter, "C12.R5", "writers:"+bs.recv.Obj().Name()+"."+bs.dispatch+"@"+core.FnName(st.Fn), c.Pos(st.Instr.Pos()),
			"the dispatch list is written only by the bootstrap routine and by helpers that nothing else calls")
	}
	// eager-create: each participant is created under its own component name (a wrong key would fill its slot with another one)
	bsTable(c, r, bs, "C12.R5", map[string]bool{"chain-order": true, "managed": true, "eager-create": true})
}

// dispatchTables runs the decision tables of the four dispatch stages (before-instantiation resolver, property stage,
// initialization, early reference) - each interprets its stage on processor lists bound to the delegate's dispatch
// field only - reports their order rows under rule and returns the functions those stages consist of.
func dispatchTables(c *core.Ctx, r *core.Report, rule string) map[*ssa.Function]bool {
	ro := c.Roles()
	covered := map[*ssa.Function]bool{}
	cover := func(fn *ssa.Function) {
		reachesCall(fn, func(*ssa.CallCommon) bool { return false }, covered)
	}
	only := func(names ...string) func(string) string {
		return func(row string) string {
			for _, n := range names {
				if n == row {
					return rule
				}
			}
			return ""
		}
	}
	pickRows := func(all map[string]string, names ...string) map[string]string {
		out := map[string]string{}
		for _, n := range names {
			out[n] = all[n]
		}
		return out
	}
	// resolver
	subs := lowestReaching(c, "container/factory",
		func(com *ssa.CallCommon) bool { return core.IsInvoke(com, ro.IABeforeInst) },
		func(com *ssa.CallCommon) bool { return core.IsInvoke(com, ro.CPAfterInit) })
	if len(subs) == 1 {
		cons := "resolver-table@" + core.FnName(subs[0])
		if rs, _, und := resolverTable(c, subs[0], 2); und != "" {
			r.Undecided(rule, cons, c.FnPos(subs[0]), "abstract interpretation left the model: "+und)
		} else {
			rs.report(c, r, subs[0], only("ask-in-order", "after-init-only"), cons, pickRows(resolverRows, "ask-in-order", "after-init-only"))
			cover(subs[0])
		}
	}
	// property stage
	if fn := propsStageEntry(c); fn != nil {
		cons := "props-stage-table@" + core.FnName(fn)
		if rs, _, und := propsStageTable(c, fn, 2); und != "" {
			r.Undecided(rule, cons, c.FnPos(fn), "abstract interpretation left the model: "+und)
		} else {
			rs.report(c, r, fn, only("order"), cons, pickRows(propsStageRows, "order"))
			cover(fn)
		}
	}
	// initialization and early reference
	sub := core.NewReport("C12", c.Tier, 0)
	if l := findLifecycle(c, sub, rule); l != nil {
		cons := "init-table@" + core.FnName(l.initFn)
		if rs, _, und := initTable(c, l.initFn, 2); und != "" {
			r.Undecided(rule, cons, c.FnPos(l.initFn), "abstract interpretation left the model: "+und)
		} else {
			rs.report(c, r, l.initFn, only("sequence"), cons, pickRows(initRows, "sequence"))
			cover(l.initFn)
		}
		econs := "early-factory-table@" + core.FnName(l.exposer)
		if rs, _, und := earlyFactoryTable(c, l, 2); und != "" {
			r.Undecided(rule, econs, c.FnPos(l.exposer), "abstract interpretation left the model: "+und)
		} else {
			rs.report(c, r, l.exposer, only("chain"), econs, pickRows(earlyFactoryRows, "chain"))
			for _, ci := range addFactorySites(c, l) {
				if lit := core.ClosureOf(ci.Common().Args[1]); lit != nil {
					cover(lit)
				}
			}
		}
	}
	return covered
}

// bsTable runs the bootstrap decision table and reports the selected rows under rule.
func bsTable(c *core.Ctx, r *core.Report, bs *bootstrapSubject, rule string, rowsWanted map[string]bool) {
	maxLen := 2
	if r.Tier == "thorough" {
		maxLen = 3
	}
	cons := "bootstrap-table@" + core.FnName(bs.fn)
	brs, n, und := bootstrapTable(c, bs, maxLen)
	r.Count("bootstrap_table_runs", n)
	if und != "" {
		r.Undecided(rule, cons, c.FnPos(bs.fn), "abstract interpretation left the model: "+und)
		return
	}
	smallModelCheck(c, r, rule, cons, bs.fn, int64(maxLen))
	need := map[string]string{}
	for k := range rowsWanted {
		need[k] = bootstrapRows[k]
	}
	brs.report(c, r, bs.fn, func(row string) string {
		if rowsWanted[row] {
			return rule
		}
		return ""
	}, cons, need)
}

// sorterTableFor interprets one sorter instance on every abstract list up to maxLen and reports rows under rule ids
// given by ruleOf (shared by C12 and C13).
func sorterTableFor(c *core.Ctx, r *core.Report, inst *ssa.Function, maxLen int, ruleOf func(row string) string) int {
	ordN, priN := c.Named("definition", "Ordered"), c.Named("definition", "Priority")
	sortFn := c.Func("util/sort2", "Slice")
	name := core.FnName(inst) + "[" + typeArgs(inst) + "]"
	kinds := sorterKinds()
	bad := map[string][]string{}
	runs := 0
	undec := ""
	var rec func(prefix []int)
	rec = func(prefix []int) {
		if undec != "" {
			return
		}
		in := &absint.List{IsNil: len(prefix) == 0}
		for i, k := range prefix {
			in.Elems = append(in.Elems, mkSorterTok(i, kinds[k]))
		}
		orc := &sorterOracle{c: c, ordered: ordN, priority: priN, sortFn: sortFn}
		ip := absint.New(orc)
		ip.IsLog = core.IsLogCall
		ip.InScope = c.InScope
		orig := append([]absint.Value(nil), in.Elems...)
		out := ip.Run(inst, []absint.Value{in}, nil)
		runs++
		label := absint.Show(&absint.List{Elems: orig})
		if len(orc.cmpBad) > 0 {
			addBad(bad, "R3 strict comparator", label+": "+orc.cmpBad[0])
		}
		switch {
		case out.Undecided != nil:
			undec = out.Undecided.Msg
			return
		case out.Panic != nil:
			addBad(bad, "R1 total", label+" => panic "+out.Panic.Msg)
		default:
			res, ok := out.Ret[0].(*absint.List)
			if !ok {
				addBad(bad, "R1 permutation", label+" => "+absint.Show(out.Ret[0]))
				break
			}
			cnt := map[absint.Value]int{}
			for _, e := range orig {
				cnt[e]++
			}
			perm := len(res.Elems) == len(orig)
			for _, e := range res.Elems {
				cnt[e]--
				if cnt[e] < 0 {
					perm = false
				}
			}
			if !perm {
				addBad(bad, "R1 permutation", label+" => "+absint.Show(res))
				break
			}
			prevRank := -1
			var prevOrder int64
			first := true
			for _, e := range res.Elems {
				t := e.(*absint.Tok)
				rk := rank(t.Class)
				if rk < prevRank {
					addBad(bad, "R2 grouping", label+" => "+absint.Show(res))
					break
				}
				if rk > prevRank {
					first = true
				}
				if rk < 2 {
					o := int64(t.Attr["order"].(absint.Int))
					if !first && o < prevOrder {
						addBad(bad, "R3 non-decreasing Order", label+" => "+absint.Show(res))
						break
					}
					prevOrder, first = o, false
				}
				prevRank = rk
			}
		}
		if len(prefix) < maxLen {
			for k := range kinds {
				rec(append(append([]int(nil), prefix...), k))
			}
		}
	}
	rec(nil)
	if undec != "" {
		r.Undecided(ruleOf("R1"), "sorter:"+name, c.FnPos(inst), "abstract interpretation left the model: "+undec)
		return runs
	}
	for _, rule := range []string{"R1 total", "R1 permutation", "R2 grouping", "R3 non-decreasing Order", "R3 strict comparator"} {
		id := ruleOf(strings.Fields(rule)[0])
		cons := "sorter:" + name + ":" + strings.Join(strings.Fields(rule)[1:], "-")
		if w := bad[rule]; len(w) > 0 {
			r.Fail(id, cons, c.FnPos(inst), fmt.Sprintf("%d of %d abstract inputs violate '%s'", len(w), runs, rule), firstN(w, 4)...)
		} else {
			r.Hold(id, cons, c.FnPos(inst), fmt.Sprintf("all %d abstract lists (len<=%d over %d kinds incl. extreme Order values) satisfy '%s'", runs, maxLen, len(kinds), rule))
		}
	}
	return runs
}
