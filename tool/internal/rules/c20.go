package rules

import (
	"fmt"
	"go/token"
	"go/types"
	"os"
	"sort"
	"strings"
	"sync"

	"golang.org/x/tools/go/ssa"

	"iocvet/internal/core"
)

func init() { register("C20", c20) }

// ---- ownership classes (P10) ----------------------------------------------------------------------------

type own int

const (
	ownFresh   own = iota // allocated by the goroutine itself
	ownPrivate            // handed to exactly this goroutine (its own range element / map entry)
	ownKeyPart            // fetched from a concurrent container under the goroutine's private key
	ownShared             // visible to several goroutines (captured cell, global, shared receiver ...)
)

func (o own) String() string { return [...]string{"fresh", "private", "key-partitioned", "shared"}[o] }

func worse(a, b own) own {
	if b > a {
		return b
	}
	return a
}

type raceWrite struct {
	pos, fn, what string
	class         own
	guarded       bool
}

type ownAnalysis struct {
	c       *core.Ctx
	ro      *core.Roles
	memo    map[string]bool
	writes  []raceWrite
	fns     map[*ssa.Function]bool
	fresh   map[*ssa.Function]int // returns-fresh memo: 0 unknown 1 yes 2 no
	trusted map[string]bool
	// locations (captured variable / field of a shared object) that a goroutine writes, and every read of such
	// locations by the goroutines
	sharedWrites map[string]string
	reads        []raceRead
	recvMemo     map[*types.Var]own
}

type raceRead struct {
	key, pos, fn string
	guarded      bool
}

// locKey names the memory location behind an address for the read/write pairing: a captured variable by identity,
// a field of a shared object by type and field name (conservative: all objects of the type alias).
func locKey(addr ssa.Value) string {
	switch x := addr.(type) {
	case *ssa.FreeVar:
		return "captured " + x.Name() + " of " + core.FnName(x.Parent())
	case *ssa.FieldAddr:
		if fr, ok := core.FieldOfAddr(x); ok {
			return "field " + fr.Owner.Obj().Name() + "." + fr.Name
		}
	}
	return ""
}

// returnsFresh: every non-nil result 0 of fn is an allocation made by fn or by a returns-fresh callee.
func (a *ownAnalysis) returnsFresh(fn *ssa.Function, depth int) bool {
	if fn == nil || fn.Blocks == nil || depth > 4 {
		return false
	}
	if v := a.fresh[fn]; v != 0 {
		return v == 1
	}
	a.fresh[fn] = 2
	ok := true
	for _, ret := range core.Returns(fn) {
		if len(ret.Results) == 0 {
			ok = false
			continue
		}
		for _, o := range core.Origins(ret.Results[0], nil) {
			switch x := o.(type) {
			case *ssa.Alloc, *ssa.MakeMap, *ssa.MakeSlice, *ssa.MakeClosure, *ssa.Const:
			case *ssa.Call:
				if cal := x.Common().StaticCallee(); cal == nil || !a.returnsFresh(cal, depth+1) {
					ok = false
				}
			case *ssa.Extract:
				if call, isCall := x.Tuple.(*ssa.Call); isCall {
					if cal := call.Common().StaticCallee(); cal == nil || !a.returnsFresh(cal, depth+1) {
						ok = false
					}
				} else {
					ok = false
				}
			default:
				ok = false
			}
		}
	}
	if ok {
		a.fresh[fn] = 1
	}
	return ok
}

type ownCtx struct {
	fn     *ssa.Function
	params []own
	free   []own
	// ident[i]: parameter i is the goroutine's own partition key or element itself (the range key / element it was
	// started for, handed on unchanged) - not merely something derived from it, which two goroutines may share
	ident []bool
	// freeIdent[i]: free variable i is a per-iteration copy of the goroutine's own key or element
	freeIdent []bool
}

// backingClass: ownership of the array behind a slice value (not of what its elements refer to): a slice made here, or
// grown here from one made here, has a fresh array whatever it holds.
func (a *ownAnalysis) backingClass(x *ownCtx, v ssa.Value, visiting map[ssa.Value]bool, depth int) own {
	if depth > 12 || v == nil {
		return ownShared
	}
	if visiting[v] {
		return ownFresh // loop-carried: decided by the other edges
	}
	visiting[v] = true
	defer delete(visiting, v)
	switch t := v.(type) {
	case *ssa.Const, *ssa.MakeSlice:
		return ownFresh
	case *ssa.Slice:
		if _, isArr := t.X.Type().Underlying().(*types.Pointer); isArr {
			return a.classOf(x, t.X, 0) // a slice of an array variable
		}
		return a.backingClass(x, t.X, visiting, depth+1)
	case *ssa.Phi:
		c := ownFresh
		for _, e := range t.Edges {
			c = worse(c, a.backingClass(x, e, visiting, depth+1))
		}
		return c
	case *ssa.Call:
		if bi, ok := t.Common().Value.(*ssa.Builtin); ok && bi.Name() == "append" && len(t.Common().Args) > 0 {
			return a.backingClass(x, t.Common().Args[0], visiting, depth+1)
		}
	case *ssa.UnOp:
		if t.Op == token.MUL {
			if al, isLocal := t.X.(*ssa.Alloc); isLocal {
				c := ownFresh
				vals := storedInto(al)
				for _, sv := range vals {
					c = worse(c, a.backingClass(x, sv, visiting, depth+1))
				}
				if len(vals) > 0 {
					return c
				}
			}
		}
	}
	return a.classOf(x, v, 0)
}

// putBackShared: the value is stored into shared memory, or handed to the storing operation of a concurrent container.
func (a *ownAnalysis) putBackShared(x *ownCtx, v *ssa.Call) bool {
	for _, rf := range *v.Referrers() {
		switch t := rf.(type) {
		case *ssa.Store:
			if t.Val == ssa.Value(v) {
				if _, local := t.Addr.(*ssa.Alloc); !local && a.classOf(x, t.Addr, 0) == ownShared {
					return true
				}
			}
		case *ssa.MapUpdate:
			if t.Value == ssa.Value(v) && a.classOf(x, t.Map, 0) == ownShared {
				return true
			}
		case ssa.CallInstruction:
			if cal := core.Callee(t.Common()); cal != nil && cal.Signature.Recv() != nil {
				switch cal.Name() {
				case "Store", "LoadOrStore", "Swap":
					return true
				}
			}
		case *ssa.MakeInterface:
			for _, r2 := range *t.Referrers() {
				if ci, ok := r2.(ssa.CallInstruction); ok {
					if cal := core.Callee(ci.Common()); cal != nil && cal.Signature.Recv() != nil {
						switch cal.Name() {
						case "Store", "LoadOrStore", "Swap":
							return true
						}
					}
				}
			}
		}
	}
	return false
}

// isIdent: v is, unchanged, a parameter that carries the goroutine's own key or element.
func (a *ownAnalysis) isIdent(x *ownCtx, v ssa.Value, depth int) bool {
	if depth > 6 || v == nil {
		return false
	}
	switch t := v.(type) {
	case *ssa.Parameter:
		for i, p := range x.fn.Params {
			if p == t && i < len(x.ident) {
				return x.ident[i]
			}
		}
		return false
	case *ssa.MakeInterface:
		return a.isIdent(x, t.X, depth+1)
	case *ssa.ChangeType:
		return a.isIdent(x, t.X, depth+1)
	case *ssa.ChangeInterface:
		return a.isIdent(x, t.X, depth+1)
	case *ssa.Phi:
		for _, e := range t.Edges {
			if !a.isIdent(x, e, depth+1) {
				return false
			}
		}
		return len(t.Edges) > 0
	case *ssa.UnOp:
		if t.Op == token.ARROW {
			_, id := a.received(t)
			return id
		}
		if t.Op == token.MUL {
			if fv, ok := t.X.(*ssa.FreeVar); ok {
				for i, p := range x.fn.FreeVars {
					if p == fv && i < len(x.freeIdent) {
						return x.freeIdent[i]
					}
				}
				return false
			}
			if al := rootAlloc(t.X); al != nil {
				vals := storedInto(al)
				for _, sv := range vals {
					if !a.isIdent(x, sv, depth+1) {
						return false
					}
				}
				return len(vals) > 0
			}
		}
	case *ssa.Extract:
		if u, ok := t.Tuple.(*ssa.UnOp); ok && u.Op == token.ARROW && t.Index == 0 {
			return a.isIdent(x, u, depth+1)
		}
	case *ssa.Field:
		// a part of the job the goroutine was handed (key and value of its entry travel together)
		return a.isIdent(x, t.X, depth+1)
	}
	return false
}

// perIterationEntry: the captured variable is allocated inside the innermost loop around the call site - a range loop -
// and its one store puts that iteration's key, value or element into it.
func perIterationEntry(site *ssa.Call, bnd ssa.Value) bool {
	al, ok := bnd.(*ssa.Alloc)
	if !ok || site == nil {
		return false
	}
	fn := site.Parent()
	loop := core.InnermostLoop(fn, site.Block())
	if loop == nil || !loop.Blocks[al.Block()] {
		return false
	}
	st := core.SingleStore(al)
	if st == nil {
		return false
	}
	n := core.Norm(st)
	if rl := core.RangeLoopOf(fn, site.Block()); rl != nil && rl.Loop == loop && rl.ElemOf(n) {
		return true
	}
	if mr := mapRangeOf(site.Block()); mr != nil {
		if ex, ok := n.(*ssa.Extract); ok {
			if nx, ok := ex.Tuple.(*ssa.Next); ok && nx.Iter == ssa.Value(mr) && ex.Index >= 1 {
				return true
			}
		}
	}
	return false
}

// chanIdentity names a channel by the place it lives in: a field (all objects of the type alias), or nil.
func chanIdentity(v ssa.Value) *types.Var {
	if u, ok := core.Norm(v).(*ssa.UnOp); ok && u.Op == token.MUL {
		if fa, ok := u.X.(*ssa.FieldAddr); ok {
			if st, ok := fa.X.Type().Underlying().(*types.Pointer).Elem().Underlying().(*types.Struct); ok {
				return st.Field(fa.Field)
			}
		}
	}
	return nil
}

// received: the ownership class of what a receive yields, and whether it is the receiver's own entry unchanged.  Every
// send on the channel (all channels living in the same field) must hand over the current entry - key, value, or a
// struct literal made of them - of the map or slice its loop ranges over, once per iteration.
func (a *ownAnalysis) received(recv *ssa.UnOp) (own, bool) {
	id := chanIdentity(recv.X)
	if id == nil {
		return ownShared, false
	}
	if a.recvMemo == nil {
		a.recvMemo = map[*types.Var]own{}
	}
	if cl, ok := a.recvMemo[id]; ok {
		return cl, cl == ownPrivate
	}
	cl := ownPrivate
	n := 0
	for _, fn := range a.c.Scope {
		for _, f := range core.WithAnon(fn) {
			for _, b := range f.Blocks {
				for _, in := range b.Instrs {
					switch t := in.(type) {
					case *ssa.Send:
						if chanIdentity(t.Chan) != id {
							continue
						}
						n++
						if !sendsOwnEntry(f, t) {
							cl = ownShared
						}
					case *ssa.Select:
						for _, st := range t.States {
							if st.Dir == types.SendOnly && chanIdentity(st.Chan) == id {
								n++
								cl = ownShared
							}
						}
					}
				}
			}
		}
	}
	if n == 0 {
		cl = ownShared
	}
	a.recvMemo[id] = cl
	return cl, cl == ownPrivate
}

// sendsOwnEntry: the send sits in the body of a range loop (not in a loop nested in it) and what it sends is that
// iteration's key / value / element, or a struct literal holding nothing else.
func sendsOwnEntry(fn *ssa.Function, s *ssa.Send) bool {
	loop := core.InnermostLoop(fn, s.Block())
	if loop == nil {
		return false
	}
	rl := core.RangeLoopOf(fn, s.Block())
	mr := mapRangeOf(s.Block())
	if rl != nil && rl.Loop != loop {
		rl = nil
	}
	entry := func(v ssa.Value) bool {
		n := core.Norm(v)
		if rl != nil && rl.ElemOf(n) {
			return true
		}
		if ex, ok := n.(*ssa.Extract); ok && mr != nil {
			if nx, ok := ex.Tuple.(*ssa.Next); ok && nx.Iter == ssa.Value(mr) && ex.Index >= 1 {
				return true
			}
		}
		return false
	}
	if rl == nil && mr == nil {
		return false
	}
	if entry(s.X) {
		return true
	}
	if u, ok := s.X.(*ssa.UnOp); ok && u.Op == token.MUL {
		if al, ok := u.X.(*ssa.Alloc); ok && loop.Blocks[al.Block()] {
			vals := storedInto(al)
			for _, v := range vals {
				if _, isConst := v.(*ssa.Const); isConst {
					continue
				}
				if !entry(v) {
					return false
				}
			}
			return len(vals) > 0
		}
	}
	return false
}

// classOf: ownership class of the storage a pointer-like value (pointer, slice, map, interface holding one) refers to.
func (a *ownAnalysis) classOf(x *ownCtx, v ssa.Value, depth int) own {
	return a.classVal(x, v, map[ssa.Value]bool{}, 0)
}

// storedInto: the values stored (in this function) through addresses derived from a local allocation.
func storedInto(al *ssa.Alloc) []ssa.Value {
	var out []ssa.Value
	var scan func(addr ssa.Value, d int)
	scan = func(addr ssa.Value, d int) {
		if d > 4 || addr.Referrers() == nil {
			return
		}
		for _, rf := range *addr.Referrers() {
			switch t := rf.(type) {
			case *ssa.Store:
				if t.Addr == addr {
					out = append(out, t.Val)
				}
			case *ssa.IndexAddr:
				if t.X == addr {
					scan(t, d+1)
				}
			case *ssa.FieldAddr:
				if t.X == addr {
					scan(t, d+1)
				}
			}
		}
	}
	scan(al, 0)
	return out
}

// rootAlloc: the local allocation an address is derived from (through field/index addressing only), or nil.
func rootAlloc(addr ssa.Value) *ssa.Alloc {
	for i := 0; i < 8; i++ {
		switch t := addr.(type) {
		case *ssa.Alloc:
			return t
		case *ssa.FieldAddr:
			addr = t.X
		case *ssa.IndexAddr:
			addr = t.X
		default:
			return nil
		}
	}
	return nil
}

func (a *ownAnalysis) classVal(x *ownCtx, v ssa.Value, visiting map[ssa.Value]bool, depth int) own {
	if v == nil {
		return ownFresh
	}
	if depth > 40 {
		return ownShared
	}
	if visiting[v] {
		return ownFresh // loop-carried: decided by the other edges
	}
	visiting[v] = true
	defer delete(visiting, v)
	rec := func(w ssa.Value) own { return a.classVal(x, w, visiting, depth+1) }
	switch t := v.(type) {
	case *ssa.Alloc, *ssa.MakeMap, *ssa.MakeSlice, *ssa.MakeClosure, *ssa.Const, *ssa.MakeChan, *ssa.BinOp, *ssa.Convert, *ssa.Function, *ssa.Builtin:
		return ownFresh
	case *ssa.Parameter:
		for i, p := range x.fn.Params {
			if p == t && i < len(x.params) {
				return x.params[i]
			}
		}
		return ownShared
	case *ssa.FreeVar:
		for i, p := range x.fn.FreeVars {
			if p == t && i < len(x.free) {
				return x.free[i]
			}
		}
		return ownShared
	case *ssa.Global:
		return ownShared
	case *ssa.FieldAddr:
		return rec(t.X)
	case *ssa.IndexAddr:
		return rec(t.X)
	case *ssa.Field:
		return rec(t.X)
	case *ssa.Index:
		return rec(t.X)
	case *ssa.Lookup:
		return rec(t.X)
	case *ssa.Slice:
		return rec(t.X)
	case *ssa.MakeInterface:
		return rec(t.X)
	case *ssa.ChangeType:
		return rec(t.X)
	case *ssa.ChangeInterface:
		return rec(t.X)
	case *ssa.TypeAssert:
		return rec(t.X)
	case *ssa.Extract:
		return rec(t.Tuple)
	case *ssa.UnOp:
		if t.Op == token.ARROW {
			// a value taken from a channel belongs to whoever takes it if every send on that channel hands over
			// something that is sent exactly once (the current entry of the collection the sender ranges over)
			if cl, _ := a.received(t); cl != ownShared {
				return cl
			}
			return ownShared
		}
		if t.Op != token.MUL {
			return ownFresh
		}
		// a pointer loaded from memory: what was stored there if the location is local, else it belongs to its container
		if al := rootAlloc(t.X); al != nil {
			c := ownFresh
			n := 0
			for _, sv := range storedInto(al) {
				c = worse(c, rec(sv))
				n++
			}
			if n > 0 || !al.Heap {
				return c
			}
			return c
		}
		return rec(t.X)
	case *ssa.Phi:
		c := ownFresh
		for _, e := range t.Edges {
			c = worse(c, rec(e))
		}
		return c
	case *ssa.Next:
		if rg, ok := t.Iter.(*ssa.Range); ok {
			return rec(rg.X)
		}
		return ownShared
	case *ssa.Call:
		com := t.Common()
		if bi, ok := com.Value.(*ssa.Builtin); ok {
			if bi.Name() == "append" {
				c := rec(com.Args[0])
				if len(com.Args) > 1 {
					// contents of the appended elements
					if sl, isSl := com.Args[1].(*ssa.Slice); isSl {
						if al := rootAlloc(sl.X); al != nil {
							for _, sv := range storedInto(al) {
								c = worse(c, rec(sv))
							}
							return c
						}
					}
					c = worse(c, rec(com.Args[1]))
				}
				return c
			}
			return ownFresh
		}
		// keyed getters of concurrent containers
		keyIdx := -1
		switch {
		case core.IsInvoke(com, a.ro.DRGetMetaOrRegister), core.IsInvoke(com, a.ro.DRGetMetaByName):
			keyIdx = 0
		default:
			if cal := core.Callee(com); cal != nil && cal.Signature.Recv() != nil {
				if n := core.NamedOf(cal.Signature.Recv().Type()); n != nil && n.Obj().Pkg() != nil && n.Obj().Pkg().Path() == core.Mod+"/util/sync2" {
					switch cal.Name() {
					case "Load", "LoadOrStore", "LoadOrStoreFn":
						keyIdx = 1
					}
				}
			}
		}
		if keyIdx >= 0 && keyIdx < len(com.Args) {
			// the entry under the goroutine's own key belongs to it; an entry under a key that is merely derived from
			// what it was given (a type, a computed text) may be another goroutine's entry as well
			if k := rec(com.Args[keyIdx]); (k == ownPrivate || k == ownKeyPart) && a.isIdent(x, com.Args[keyIdx], 0) {
				return ownKeyPart
			}
			return ownShared
		}
		if cal := com.StaticCallee(); cal != nil {
			if a.returnsFresh(cal, 0) {
				return ownFresh
			}
			if !a.c.InScope(cal) {
				full := cal.String()
				if o := cal.Origin(); o != nil {
					full = o.String()
				}
				switch {
				case strings.HasPrefix(full, "reflect.New"), strings.HasPrefix(full, "reflect.MakeSlice"), strings.HasPrefix(full, "reflect.Zero"),
					strings.HasPrefix(full, "fmt."), strings.HasPrefix(full, "strings."), strings.HasPrefix(full, "github.com/pkg/errors."),
					strings.HasPrefix(full, "errors."), strings.HasPrefix(full, "path."), strings.HasPrefix(full, "strconv."):
					return ownFresh
				case strings.HasPrefix(full, "reflect.ValueOf"), strings.HasPrefix(full, "reflect.TypeOf"), strings.HasPrefix(full, "(reflect.Value)."):
					if len(com.Args) > 0 {
						return rec(com.Args[0])
					}
				}
			}
			// a getter on an object: the result belongs to that object
			if len(com.Args) > 0 && cal.Signature.Recv() != nil {
				return rec(com.Args[0])
			}
		}
		if com.IsInvoke() {
			return worse(ownShared, rec(com.Value))
		}
		return ownShared
	}
	return ownShared
}

// lockHeld: a sync.Mutex / RWMutex Lock on a shared mutex dominates in, and its Unlock is deferred or post-dominates in.
func (a *ownAnalysis) lockHeld(x *ownCtx, in ssa.Instruction) bool {
	fn := x.fn
	for _, ci := range core.Calls(fn) {
		if !(core.IsExtCall(ci.Common(), "(*sync.Mutex).Lock") || core.IsExtCall(ci.Common(), "(*sync.RWMutex).Lock")) {
			continue
		}
		if _, isCall := ci.(*ssa.Call); !isCall || !core.Dominates(ci, in) {
			continue
		}
		mu := ci.Common().Args[0]
		if a.classOf(x, mu, 0) != ownShared {
			continue // a private mutex protects nothing
		}
		for _, cu := range core.Calls(fn) {
			if !(core.IsExtCall(cu.Common(), "(*sync.Mutex).Unlock") || core.IsExtCall(cu.Common(), "(*sync.RWMutex).Unlock")) {
				continue
			}
			if !core.Equiv(cu.Common().Args[0], mu) && core.Norm(cu.Common().Args[0]) != core.Norm(mu) {
				continue
			}
			if _, isDefer := cu.(*ssa.Defer); isDefer && core.Dominates(cu, in) {
				return true
			}
			if _, isCall := cu.(*ssa.Call); isCall && a.c.InstrPostDominates(cu, in) && !core.Dominates(cu, in) {
				// no Unlock between Lock and the write
				return true
			}
		}
	}
	return false
}

func (a *ownAnalysis) analyze(x *ownCtx, depth int) {
	if x.fn == nil || x.fn.Blocks == nil || !a.c.InScope(x.fn) || depth > 10 {
		return
	}
	key := fmt.Sprint(x.fn.String(), x.params, x.free, x.ident, x.freeIdent)
	if a.memo[key] {
		return
	}
	a.memo[key] = true
	a.fns[x.fn] = true
	fn := x.fn
	record := func(in ssa.Instruction, addr ssa.Value, what string) {
		cl := a.classOf(x, addr, 0)
		w := raceWrite{pos: a.c.Pos(in.Pos()), fn: core.FnName(fn), what: what, class: cl}
		if cl == ownShared {
			w.guarded = a.lockHeld(x, in)
			if k := locKey(addr); k != "" {
				if a.sharedWrites == nil {
					a.sharedWrites = map[string]string{}
				}
				a.sharedWrites[k] = w.pos
			}
		}
		a.writes = append(a.writes, w)
	}
	cg := a.c.CG()
	node := cg.Nodes[fn]
	for _, b := range fn.Blocks {
		for _, in := range b.Instrs {
			switch t := in.(type) {
			case *ssa.UnOp:
				if t.Op == token.MUL {
					if k := locKey(t.X); k != "" && a.classOf(x, t.X, 0) == ownShared {
						a.reads = append(a.reads, raceRead{key: k, pos: a.c.Pos(t.Pos()), fn: core.FnName(fn), guarded: a.lockHeld(x, in)})
					}
				}
			case *ssa.Store:
				if al, isAlloc := t.Addr.(*ssa.Alloc); isAlloc {
					_ = al
					continue // a local variable of this invocation
				}
				record(in, t.Addr, "store")
			case *ssa.MapUpdate:
				record(in, t.Map, "map update")
			case ssa.CallInstruction:
				com := t.Common()
				if bi, ok := com.Value.(*ssa.Builtin); ok {
					if bi.Name() == "delete" || bi.Name() == "copy" {
						record(in, com.Args[0], bi.Name())
					}
					if bi.Name() == "append" && len(com.Args) > 0 && a.backingClass(x, com.Args[0], map[ssa.Value]bool{}, 0) == ownShared {
						// growing a slice that others can reach and putting the result back where they can reach it is a
						// read-modify-write of shared state: two appenders starting from the same slice write the same
						// slot of its spare capacity, and one result replaces the other
						if call, isCall := in.(*ssa.Call); isCall && a.putBackShared(x, call) {
							record(in, com.Args[0], "append")
						}
					}
					continue
				}
				if cal := core.Callee(com); cal != nil && !a.c.InScope(cal) {
					full := cal.String()
					if strings.HasPrefix(full, "(reflect.Value).Set") || full == "sort.Slice" || full == "sort.SliceStable" {
						record(in, com.Args[0], cal.Name())
					}
					continue
				}
				// in-scope callees: static, literal by provenance, or CHA
				var callees []*ssa.Function
				if sc := com.StaticCallee(); sc != nil {
					callees = []*ssa.Function{sc}
				} else if com.IsInvoke() && node != nil {
					for _, e := range node.Out {
						if e.Site == t && a.c.InScope(e.Callee.Func) {
							callees = append(callees, e.Callee.Func)
						}
					}
				} else if lit := core.ClosureOf(com.Value); lit != nil {
					callees = []*ssa.Function{lit}
				}
				// calls of function-typed parameters are not followed here: every literal is analysed where it is
				// created (MakeClosure below) and every named function where it is passed as a value (next loop);
				// CHA's signature matching would drag in unrelated functions
				for _, arg := range com.Args {
					if fv, isFn := core.Norm(arg).(*ssa.Function); isFn && a.c.InScope(fv) {
						nx := &ownCtx{fn: fv}
						pc := ownFresh
						for _, a2 := range com.Args {
							pc = worse(pc, a.classOf(x, a2, 0))
						}
						for range fv.Params {
							nx.params = append(nx.params, pc)
						}
						a.analyze(nx, depth+1)
					}
				}
				for _, cal := range callees {
					if core.IsLogCall(com) && !strings.HasSuffix(cal.Name(), "Pref") {
						continue // log output goes through log.Logger, which locks; logger construction is analysed
					}
					nx := &ownCtx{fn: cal}
					if com.IsInvoke() {
						nx.params = append(nx.params, a.classOf(x, com.Value, 0))
						nx.ident = append(nx.ident, false)
					}
					for _, arg := range com.Args {
						nx.params = append(nx.params, a.classOf(x, arg, 0))
						nx.ident = append(nx.ident, a.isIdent(x, arg, 0))
					}
					for len(nx.params) < len(cal.Params) {
						nx.params = append(nx.params, ownShared)
					}
					if mc, ok := core.Norm(com.Value).(*ssa.MakeClosure); ok && mc.Fn == ssa.Value(cal) {
						for _, bnd := range mc.Bindings {
							nx.free = append(nx.free, a.classOf(x, bnd, 0))
						}
					} else {
						for range cal.FreeVars {
							nx.free = append(nx.free, ownShared)
						}
					}
					a.analyze(nx, depth+1)
				}
			case *ssa.MakeClosure:
				// a literal created here and passed on as a callback runs with this function's view of its captures
				lit := t.Fn.(*ssa.Function)
				nx := &ownCtx{fn: lit}
				for range lit.Params {
					nx.params = append(nx.params, ownShared)
				}
				// callbacks of in-scope iterators receive parts of what is iterated: approximate by the worst capture
				for _, bnd := range t.Bindings {
					nx.free = append(nx.free, a.classOf(x, bnd, 0))
				}
				pc := ownFresh
				for _, f := range nx.free {
					pc = worse(pc, f)
				}
				for i := range nx.params {
					nx.params[i] = pc
				}
				a.analyze(nx, depth+1)
			}
		}
	}
}

// ---- linearization-point rule (R4) ---------------------------------------------------------------------

var syncMapMutators = map[string]bool{"Store": true, "Delete": true, "LoadOrStore": true, "LoadAndDelete": true, "CompareAndSwap": true, "CompareAndDelete": true, "Swap": true}
var syncMapConditional = map[string]bool{"LoadOrStore": true, "LoadAndDelete": true, "CompareAndSwap": true, "CompareAndDelete": true}
var syncMapReaders = map[string]bool{"Load": true, "Range": true}

type prim struct {
	name string
	in   ssa.Instruction
	key  ssa.Value
}

// primitivesOf lists the sync.Map primitives a method performs, inlining calls of sibling methods one level.
func primitivesOf(fn *ssa.Function, depth int) []prim {
	var out []prim
	for _, ci := range core.Calls(fn) {
		cal := core.Callee(ci.Common())
		if cal == nil {
			continue
		}
		full := cal.String()
		if strings.HasPrefix(full, "(*sync.Map).") {
			p := prim{name: cal.Name(), in: ci}
			if len(ci.Common().Args) > 1 {
				p.key = ci.Common().Args[1]
			}
			out = append(out, p)
			continue
		}
		samePkg := cal.Pkg != nil && fn.Pkg != nil && cal.Pkg == fn.Pkg
		if o := cal.Origin(); o != nil && o.Pkg != nil && fn.Pkg != nil {
			samePkg = o.Pkg == fn.Pkg || (fn.Origin() != nil && fn.Origin().Pkg == o.Pkg)
		}
		if (depth < 1 && cal.Signature.Recv() != nil && fn.Signature.Recv() != nil && sameNamed(cal.Signature.Recv().Type(), fn.Signature.Recv().Type())) || (depth < 3 && samePkg && cal.Signature.Recv() != nil) {
			// a method of the same type, or of the object of the same package the operation is handed over to (the
			// generic set behind a facade, the typed store behind the map)
			if sc := ci.Common().StaticCallee(); sc != nil {
				if sc.Origin() != nil && sc.Origin().Blocks != nil {
					sc = sc.Origin() // instances over type parameters are thin wrappers around the generic body
				}
				for _, p := range primitivesOf(sc, depth+1) {
					inner := p.key
					p.in = ci
					p.key = nil
					if inner != nil {
						k := core.Norm(inner)
						if mi, isMI := inner.(*ssa.MakeInterface); isMI {
							k = core.Norm(mi.X)
						}
						for i, q := range sc.Params {
							if ssa.Value(q) == k && i < len(ci.Common().Args) {
								p.key = ci.Common().Args[i]
							}
						}
					}
					if p.key == nil && len(ci.Common().Args) > 1 {
						p.key = ci.Common().Args[1]
					}
					out = append(out, p)
				}
			}
		}
	}
	return out
}

func sameNamed(a, b types.Type) bool {
	x, y := core.NamedOf(a), core.NamedOf(b)
	if x == nil || y == nil {
		return false
	}
	if x.Origin() != nil {
		x = x.Origin()
	}
	if y.Origin() != nil {
		y = y.Origin()
	}
	return x == y
}

func c20Utilities(c *core.Ctx, r *core.Report) {
	type want struct {
		method, mutator string
	}
	subjects := []struct {
		pkg, typ string
		methods  []want
	}{
		{"util/sync2", "Map", []want{{"Load", ""}, {"Store", "Store"}, {"LoadOrStore", "LoadOrStore"}, {"LoadOrStoreFn", "LoadOrStore"}, {"Delete", "Delete"}, {"Range", ""}}},
		{"util/list", "ConcurrentSets", []want{{"Put", "Store"}, {"Exists", ""}, {"Remove", "Delete"}}},
		{"util/list", "gcset", []want{{"Put", "Store"}, {"Exists", ""}, {"Remove", "Delete"}}},
	}
	n := 0
	for _, s := range subjects {
		T := c.Named(s.pkg, s.typ)
		if T == nil {
			r.Undecided("C20.R4", "utility:"+s.typ, "", "concurrent utility type not found")
			continue
		}
		// R5: state is a sync.Map (or the struct embeds a mutex)
		st, _ := T.Underlying().(*types.Struct)
		okState := st != nil && st.NumFields() > 0
		hasMutex := false
		var checkState func(st *types.Struct, depth int)
		checkState = func(st *types.Struct, depth int) {
			for i := 0; i < st.NumFields(); i++ {
				ts := st.Field(i).Type().String()
				if ts == "sync.Mutex" || ts == "sync.RWMutex" {
					hasMutex = true
				}
			}
			for i := 0; i < st.NumFields(); i++ {
				ft := st.Field(i).Type()
				ts := ft.String()
				if ts != "sync.Map" && ts != "sync.Mutex" && ts != "sync.RWMutex" && !hasMutex {
					// ... or in an unexported object of its own package that does
					if n := core.NamedOf(derefType(ft)); n != nil && depth < 2 && n.Obj().Pkg() == T.Obj().Pkg() && !n.Obj().Exported() {
						if inner, isStruct := n.Underlying().(*types.Struct); isStruct && inner.NumFields() > 0 {
							checkState(inner, depth+1)
							continue
						}
					}
					okState = false
				}
			}
		}
		if st != nil {
			checkState(st, 0)
		}
		r.Check(okState, "C20.R5", "state:"+s.typ, c.Pos(T.Obj().Pos()), "the concurrent utility keeps its state in a sync.Map (or behind a mutex)")
		for _, w := range s.methods {
			var fn *ssa.Function
			if dm := c.DeclaredMethod(T, w.method); dm != nil && dm.Blocks != nil {
				fn = dm
			}
			for f := range c.AllFns {
				if fn != nil {
					break
				}
				o := f
				if f.Origin() != nil {
					o = f.Origin()
				}
				if o.Name() == w.method && o.Signature.Recv() != nil && core.NamedOf(o.Signature.Recv().Type()) != nil {
					nn := core.NamedOf(o.Signature.Recv().Type())
					if nn.Origin() != nil {
						nn = nn.Origin()
					}
					if nn == T && f.Blocks != nil && f.Origin() == nil && f.Synthetic == "" {
						fn = f
					}
				}
			}
			cons := "linearization:" + s.typ + "." + w.method
			if fn == nil {
				// generic origin has no body in instantiate mode: take any instance
				for f := range c.AllFns {
					if f.Origin() != nil && f.Origin().Name() == w.method && f.Blocks != nil && f.Origin().Signature.Recv() != nil {
						nn := core.NamedOf(f.Origin().Signature.Recv().Type())
						if nn != nil && nn.Origin() != nil {
							nn = nn.Origin()
						}
						if nn == T && (fn == nil || f.String() < fn.String()) {
							fn = f
						}
					}
				}
			}
			if fn == nil {
				r.Undecided("C20.R4", cons, "", "method body not found")
				continue
			}
			n++
			ps := primitivesOf(fn, 0)
			if os.Getenv("IOCVET_DEBUG") != "" {
				for _, p := range ps {
					fmt.Fprintln(os.Stderr, "PRIM", cons, p.name, fn.String())
				}
			}
			var muts, reads []prim
			for _, p := range ps {
				if syncMapMutators[p.name] {
					muts = append(muts, p)
				}
				if syncMapReaders[p.name] {
					reads = append(reads, p)
				}
			}
			bad := ""
			// at most one mutator on any path
			for i, a := range muts {
				if core.InLoop(a.in.Block()) {
					bad = a.name + " inside a loop"
				}
				for j, b := range muts {
					if i != j && (a.in.Block() == b.in.Block() || core.BlockReaches(a.in.Block(), b.in.Block())) {
						bad = fmt.Sprintf("two mutating primitives on one path (%s then %s)", a.name, b.name)
					}
				}
			}
			// matching kind
			if w.mutator == "" && len(muts) > 0 {
				bad = "a read-only operation mutates (" + muts[0].name + ")"
			}
			if w.mutator != "" {
				found := false
				for _, m := range muts {
					if m.name == w.mutator {
						found = true
					} else {
						bad = fmt.Sprintf("mutator %s where %s is expected", m.name, w.mutator)
					}
				}
				if !found {
					bad = "expected primitive " + w.mutator + " not found"
				}
				// every non-fast-path exit passes the mutator: the mutator block post-dominates entry, or the only way around is a loaded fast path
			}
			if w.mutator == "" {
				want := map[string]string{"Load": "Load", "Exists": "Load", "Range": "Range"}[w.method]
				ok := false
				for _, rd := range reads {
					if rd.name == want {
						ok = true
					}
				}
				if !ok {
					bad = "expected primitive " + want + " not found"
				}
			}
			// check-then-act
			for _, rd := range reads {
				for _, m := range muts {
					if (rd.in.Block() == m.in.Block() && core.Dominates(rd.in, m.in) || core.BlockReaches(rd.in.Block(), m.in.Block())) && !syncMapConditional[m.name] {
						bad = fmt.Sprintf("check-then-act: %s followed by unconditional %s (two callers can both win)", rd.name, m.name)
					}
				}
			}
			// keys: the primitive is applied to the method's key parameter
			if len(fn.Params) > 1 {
				for _, p := range ps {
					if p.key == nil || p.name == "Range" {
						continue
					}
					k := core.Norm(p.key)
					if mi, isMI := p.key.(*ssa.MakeInterface); isMI {
						k = core.Norm(mi.X)
					}
					if k != ssa.Value(fn.Params[1]) {
						bad = p.name + " is not applied to the method's key parameter"
					}
				}
			}
			// what the method reports comes from its linearization point: on every path through a mutating primitive
			// that has results, no result of the method derives from an earlier read of the same map (a caller that
			// lost the race would be told what the read saw, not what the atomic operation decided)
			for _, m := range muts {
				mc, isCall := m.in.(*ssa.Call)
				if !isCall || mc.Common().Signature().Results().Len() == 0 {
					continue
				}
				via := core.ReachableFrom(mc.Block(), nil)
				primOf := map[ssa.Instruction]string{}
				for _, p := range ps {
					primOf[p.in] = p.name
				}
				var from func(v ssa.Value, d int) []ssa.Instruction
				from = func(v ssa.Value, d int) []ssa.Instruction {
					if d > 8 || v == nil {
						return nil
					}
					switch x := v.(type) {
					case *ssa.Extract:
						return from(x.Tuple, d+1)
					case *ssa.TypeAssert:
						return from(x.X, d+1)
					case *ssa.ChangeType:
						return from(x.X, d+1)
					case *ssa.MakeInterface:
						return from(x.X, d+1)
					case *ssa.ChangeInterface:
						return from(x.X, d+1)
					case *ssa.Phi:
						var out []ssa.Instruction
						for i, e := range x.Edges {
							pred := x.Block().Preds[i]
							if via[pred] || pred == mc.Block() {
								out = append(out, from(e, d+1)...)
							}
						}
						return out
					case *ssa.Call:
						return []ssa.Instruction{x}
					}
					return nil
				}
				for _, ret := range core.Returns(fn) {
					if !via[ret.Block()] && ret.Block() != mc.Block() {
						continue
					}
					for i, res := range ret.Results {
						for _, src := range from(res, 0) {
							if name, isPrim := primOf[src]; isPrim && src != ssa.Instruction(mc) && syncMapReaders[name] && !core.BlockReaches(mc.Block(), src.Block()) {
								bad = fmt.Sprintf("result #%d returned after %s derives from the earlier %s at %s, not from the atomic operation", i, m.name, name, c.Pos(src.Pos()))
							}
						}
					}
				}
			}
			r.Check(bad == "", "C20.R4", cons, c.FnPos(fn), fmt.Sprintf("at most one mutating sync.Map primitive of the matching kind on every path, never check-then-act (%d primitives) %s", len(ps), bad))
		}
	}
	r.Count("utility_methods", n)
	r.Floor("C20.R4", "concurrent utility methods", n, 9)
}

func c20(c *core.Ctx, r *core.Report) {
	ro := c.Roles()
	r.Explanation = "C20 race freedom by ownership: (R1) the go statements in scope are exactly the two known fan-outs; (R2) for each goroutine body a top-down effect analysis over the CHA call graph classifies the base object of every store / map update / delete / reflect write reachable in scope as fresh (allocated by the goroutine), private (the goroutine's own range element or map entry), key-partitioned (fetched from a concurrent container under the goroutine's private key) or shared; every write to shared memory must be bracketed by Lock/Unlock of a shared mutex in the same function, and a location the goroutines write is read by them only under the lock; (R3) WaitGroup protocol (Add before the loop, one go per iteration, Done deferred, Wait post-dominating) and the parent reads collected results only after Wait; (R4) linearization-point rule for the concurrent utilities: every method performs at most one mutating sync.Map primitive of the matching kind on any path, applied to its key parameter, never an unconditional mutator after a read of the same map (check-then-act), and on paths through the mutating primitive no result derives from an earlier read; (R5) their state is a sync.Map and the registries are built on the concurrent variants. Decides data-race freedom of the container's own code by ownership; linearizability proper needs histories and is not decided."
	r.Assumptions = []string{"sync.Map, sync.Mutex, sync.WaitGroup and log.Logger are correct and thread-safe", "external callees do not write shared memory they were not given", "objects reachable only through a private / key-partitioned object are not shared (ownership of object graphs)", "user callbacks (Close, post-processors) are out of scope"}
	// R1 census
	type goSite struct {
		g  *ssa.Go
		fn *ssa.Function
	}
	var gos []goSite
	for _, fn := range c.Scope {
		for _, ci := range core.Calls(fn) {
			if g, ok := ci.(*ssa.Go); ok {
				gos = append(gos, goSite{g, fn})
			}
		}
	}
	sort.Slice(gos, func(i, j int) bool { return core.FnName(gos[i].fn) < core.FnName(gos[j].fn) })
	r.Count("go_statements", len(gos))
	known := map[string]bool{}
	for _, f := range append(c.Invokers(ro.CloserClose), c.Invokers(ro.DRPPPostProcess)...) {
		for _, g := range fanGosOf(c, f) {
			known[core.FnName(g.Parent())] = true
		}
	}
	for _, g := range gos {
		// ... or the interpretation of the scan / the closing routine as a whole goes through it
		r.Check(known[core.FnName(g.fn)] || tableWentThrough(c, g.g), "C20.R1", "go@"+core.FnName(g.fn), c.Pos(g.g.Pos()), "go statement is one of the two known fan-outs (definition scanning, Close); a new one has to be classified")
	}
	r.Floor("C20.R1", "go statements in scope (each one classified above)", len(gos), 1)

	for _, g := range gos {
		cons := "fanout@" + core.FnName(g.fn)
		body, _ := checkWaitGroupFanout(c, r, "C20", g.g, cons)
		if body == nil {
			continue
		}
		// R2 ownership
		a := &ownAnalysis{c: c, ro: ro, memo: map[string]bool{}, fns: map[*ssa.Function]bool{}, fresh: map[*ssa.Function]int{}}
		x := &ownCtx{fn: body}
		rl := core.RangeLoopOf(g.fn, g.g.Block())
		mr := mapRangeOf(g.g.Block())
		for _, arg := range g.g.Call.Args {
			cl := ownShared
			n := core.Norm(arg)
			if rl != nil && rl.ElemOf(n) {
				cl = ownPrivate
			}
			if ex, ok := n.(*ssa.Extract); ok && mr != nil {
				if nx, ok := ex.Tuple.(*ssa.Next); ok && nx.Iter == ssa.Value(mr) && ex.Index >= 1 {
					cl = ownPrivate
				}
			}
			x.params = append(x.params, cl)
			x.ident = append(x.ident, cl == ownPrivate)
		}
		for range body.FreeVars {
			x.free = append(x.free, ownShared)
		}
		a.analyze(x, 0)
		// a helper that owns the fan-out runs a function it was handed inside each goroutine: what the callers hand
		// over is part of the goroutine's work, with the arguments the goroutine body gives it
		for _, ps := range helperPayloads(c, g.g) {
			nx := &ownCtx{fn: ps.payload}
			for _, arg := range ps.call.Common().Args {
				nx.params = append(nx.params, a.classOf(x, arg, 0))
				nx.ident = append(nx.ident, a.isIdent(x, arg, 0))
			}
			for len(nx.params) < len(ps.payload.Params) {
				nx.params = append(nx.params, ownShared)
			}
			for i := range ps.payload.FreeVars {
				// what the caller's literal captures is shared by all goroutines - except a variable made anew in
				// every iteration of the caller's loop that holds nothing but that iteration's entry
				cl := ownShared
				if ps.mc != nil && i < len(ps.mc.Bindings) && perIterationEntry(ps.site, ps.mc.Bindings[i]) {
					cl = ownPrivate
				}
				nx.free = append(nx.free, cl)
				nx.freeIdent = append(nx.freeIdent, cl == ownPrivate)
			}
			a.analyze(nx, 0)
		}
		byClass := map[string]int{}
		nbad := 0
		for _, w := range a.writes {
			k := w.class.String()
			if w.class == ownShared && w.guarded {
				k = "shared-under-lock"
			}
			byClass[k]++
			if w.class == ownShared && !w.guarded {
				nbad++
				r.Fail("C20.R2", cons+":write@"+w.fn+":"+w.what, w.pos, "a goroutine of this fan-out writes memory shared with its siblings without holding a lock ("+w.what+" in "+w.fn+")")
			}
		}
		// a location the goroutines write (under the lock) is also read only under the lock
		seenRead := map[string]bool{}
		for _, rd := range a.reads {
			wpos, written := a.sharedWrites[rd.key]
			if !written || rd.guarded || seenRead[rd.key+rd.fn] {
				continue
			}
			seenRead[rd.key+rd.fn] = true
			nbad++
			r.Fail("C20.R2", cons+":read@"+rd.fn+":"+rd.key, rd.pos, "a goroutine of this fan-out reads "+rd.key+" without holding the lock while its siblings write it (at "+wpos+")")
		}
		r.Extra["ownership:"+core.FnName(g.fn)] = map[string]any{"functions_analysed": len(a.fns), "writes_by_class": byClass}
		r.Count("functions_reachable_from_goroutines", len(a.fns))
		r.Count("writes_classified", len(a.writes))
		if nbad == 0 {
			r.Hold("C20.R2", cons+":ownership", c.Pos(g.g.Pos()), fmt.Sprintf("%d writes in %d in-scope functions reachable from the goroutine body: %v - none to shared memory outside a lock", len(a.writes), len(a.fns), byClass))
		}
		// R3b: captured cells written in the body are read by the parent only after Wait
		var wait ssa.Instruction
		for _, ci := range core.Calls(g.fn) {
			if core.IsExtCall(ci.Common(), "(*sync.WaitGroup).Wait") {
				wait = ci
			}
		}
		if wait == nil {
			if j, ok := fanJoined.Load(g.g); ok {
				wait = j.(ssa.Instruction) // joined by tokens: the first instruction after the receiving loop
			}
		}
		if mc, ok := g.g.Call.Value.(*ssa.MakeClosure); ok && wait != nil {
			for i, bnd := range mc.Bindings {
				al, isAlloc := bnd.(*ssa.Alloc)
				if !isAlloc {
					continue
				}
				// is the cell stored in the body?
				written := false
				if i < len(body.FreeVars) {
					for _, rf := range *body.FreeVars[i].Referrers() {
						if st, isSt := rf.(*ssa.Store); isSt && st.Addr == ssa.Value(body.FreeVars[i]) {
							written = true
						}
					}
				}
				if !written {
					continue
				}
				okReads := true
				for _, rf := range *al.Referrers() {
					if ld, isLoad := rf.(*ssa.UnOp); isLoad && ld.Op == token.MUL {
						if !core.StrictlyBefore(wait, ld) {
							okReads = false
						}
					}
				}
				r.Check(okReads, "C20.R3", cons+":results-read-after-wait:"+al.Comment, c.Pos(al.Pos()), "what the goroutines collect is read by the parent only after Wait")
			}
		}
	}
	c20Utilities(c, r)
	c20LoggerPure(c, r)
	// R5b: the singleton registry is built on the concurrent set, the registries on sync2.Map
	concSet := c.Func("util/list", "NewConcurrentSets")
	for _, T := range implementorsBehindFacades(c, "container", "SingletonComponentRegistry") {
		// the types of the registry's package that keep plain maps behind a lock of their own count as concurrent
		if pk := c.ByPath[T.Obj().Pkg().Path()]; pk != nil {
			sc := pk.Types.Scope()
			for _, nm := range sc.Names() {
				if tn, isTN := sc.Lookup(nm).(*types.TypeName); isTN && !tn.IsAlias() {
					if nn, isNamed := tn.Type().(*types.Named); isNamed {
						if lockGuardedMaps(c, nn) {
							guardedMapTypes.Store(nn, true)
						}
					}
				}
			}
		}
		st0, _ := T.Underlying().(*types.Struct)
		okF := st0 != nil
		// the state: the type's own fields and those of the unexported structs of its package it is layered on
		type stateHolder struct {
			T  *types.Named
			st *types.Struct
		}
		holders := []stateHolder{}
		var addHolder func(n *types.Named, depth int)
		addHolder = func(n *types.Named, depth int) {
			s, _ := n.Underlying().(*types.Struct)
			if s == nil {
				return
			}
			for _, h := range holders {
				if h.T == n {
					return
				}
			}
			holders = append(holders, stateHolder{n, s})
			for i := 0; depth < 2 && i < s.NumFields(); i++ {
				if fn := core.NamedOf(derefType(s.Field(i).Type())); fn != nil && fn.Obj().Pkg() == T.Obj().Pkg() && !fn.Obj().Exported() && fn.TypeArgs().Len() == 0 {
					if _, isStruct := fn.Underlying().(*types.Struct); isStruct && !concurrentContainer(s.Field(i).Type(), 0) {
						addHolder(fn, depth+1)
					}
				}
			}
		}
		if st0 != nil {
			addHolder(T, 0)
		}
		for _, h := range holders {
			guarded := lockGuardedMaps(c, h.T)
			for i := 0; i < h.st.NumFields(); i++ {
				ts := h.st.Field(i).Type().String()
				if strings.HasPrefix(ts, "map[") && !guarded {
					okF = false
				}
			}
		}
		// the in-creation set: every field of a set-like interface type (or of the concurrent set's own type) is
		// only ever given a value made by NewConcurrentSets - followed through constructor parameters
		concT := c.Named("util/list", "ConcurrentSets")
		usesConc := false
		var fromConc func(v ssa.Value, depth int) bool
		fromConc = func(v ssa.Value, depth int) bool {
			if depth > 4 {
				return false
			}
			all := true
			n := 0
			for _, o := range core.Origins(v, nil) {
				n++
				switch x := o.(type) {
				case *ssa.Call:
					if !core.IsCallTo(x.Common(), concSet) && !concurrentContainer(x.Type(), 0) {
						all = false
					}
				case *ssa.Parameter:
					fn := x.Parent()
					idx := -1
					for i, p := range fn.Params {
						if p == x {
							idx = i
						}
					}
					sites := c.CallSites(func(com *ssa.CallCommon) bool { return core.IsCallTo(com, fn) })
					if fn.Object() == nil || fn.Object().Exported() || len(c.FuncValueUses(fn)) != 0 || len(sites) == 0 || idx < 0 {
						all = false
						break
					}
					for _, s := range sites {
						args := s.Common().Args
						if idx >= len(args) || !fromConc(args[idx], depth+1) {
							all = false
						}
					}
				default:
					if !(concT != nil && core.NamedOf(o.Type()) == concT) && !concurrentContainer(o.Type(), 0) {
						all = false
					}
				}
			}
			return all && n > 0
		}
		for _, h := range holders {
			T, st := h.T, h.st
			for i := 0; st != nil && i < st.NumFields(); i++ {
				ft := st.Field(i).Type()
				if concT != nil && core.NamedOf(ft) == concT {
					usesConc = true // declared with the concurrent variant's concrete type
					continue
				}
				if _, isIface := ft.Underlying().(*types.Interface); !isIface && concurrentContainer(ft, 0) && core.NamedOf(derefType(ft)) != nil && !strings.HasSuffix(core.NamedOf(derefType(ft)).Obj().Pkg().Path(), "util/sync2") {
					usesConc = true // a set type of the package's own whose whole state is concurrent containers
					continue
				}
				it, isIface := ft.Underlying().(*types.Interface)
				if !isIface || concT == nil || !types.Implements(types.NewPointer(concT), it) {
					continue
				}
				setLike := false
				for k := 0; k < it.NumMethods(); k++ {
					setLike = setLike || it.Method(k).Name() == "Exists"
				}
				if !setLike {
					continue
				}
				stores, _ := c.FieldAccesses(T, st.Field(i).Name())
				ok := len(stores) > 0
				for _, s := range stores {
					ok = ok && fromConc(s.Store.Val, 0)
				}
				if ok {
					usesConc = true
				} else {
					okF = false
				}
			}
		}
		r.Check(okF && usesConc, "C20.R5", "registry-state:"+T.Obj().Name(), c.Pos(T.Obj().Pos()), "the singleton cache has no plain map field and its in-creation set is the concurrent variant")
	}
}

func derefType(t types.Type) types.Type {
	if pt, ok := t.Underlying().(*types.Pointer); ok {
		return pt.Elem()
	}
	return t
}

// concurrentContainer: the type's whole state is made of containers that are safe for concurrent use: sync.Map,
// util/sync2.Map, util/list's concurrent sets, or a struct of such (a set type built on them).
// guardedMapTypes: per analysed program, the struct types that keep plain maps behind a lock of their own (see
// lockGuardedMaps); set by the registry-state rule before it asks concurrentContainer.
var guardedMapTypes sync.Map // *types.Named -> bool

func concurrentContainer(t types.Type, depth int) bool {
	t = derefType(t)
	n := core.NamedOf(t)
	if n != nil {
		o := n
		if n.Origin() != nil {
			o = n.Origin()
		}
		if v, ok := guardedMapTypes.Load(o); ok && v.(bool) {
			return true
		}
	}
	if n != nil && n.Obj().Pkg() != nil {
		switch {
		case n.Obj().Pkg().Path() == "sync" && n.Obj().Name() == "Map":
			return true
		case strings.HasSuffix(n.Obj().Pkg().Path(), "util/sync2") && n.Obj().Name() == "Map":
			return true
		}
	}
	st, ok := t.Underlying().(*types.Struct)
	if !ok || depth > 2 || st.NumFields() == 0 {
		return false
	}
	for i := 0; i < st.NumFields(); i++ {
		if !concurrentContainer(st.Field(i).Type(), depth+1) {
			return false
		}
	}
	return true
}

// c20LoggerPure (R7): loggers are shared by every goroutine of the parallel phases (syslog.Pref hands out one cached
// object per prefix), so the print path must not write logger state: in every method of a Logger implementation
// except the two that build a new logger (Level, Pref), and in the in-package functions they call, no store goes
// through the receiver, another parameter, a captured variable or a package variable unless a lock is held.
func c20LoggerPure(c *core.Ctx, r *core.Report) {
	li := c.Iface("syslog", "Logger")
	if li == nil {
		r.Undecided("C20.R7", "role:Logger", "", "syslog.Logger not found")
		return
	}
	root := func(v ssa.Value) ssa.Value {
		for i := 0; i < 16 && v != nil; i++ {
			switch x := v.(type) {
			case *ssa.FieldAddr:
				v = x.X
			case *ssa.IndexAddr:
				v = x.X
			case *ssa.UnOp:
				v = x.X
			case *ssa.Slice:
				v = x.X
			case *ssa.ChangeType:
				v = x.X
			case *ssa.Phi:
				if len(x.Edges) == 0 {
					return v
				}
				v = x.Edges[0]
			default:
				return v
			}
		}
		return v
	}
	nFns, nStores := 0, 0
	for _, T := range c.Implementors(li) {
		seen := map[*ssa.Function]bool{}
		var work []*ssa.Function
		for i := 0; i < li.NumMethods(); i++ {
			name := li.Method(i).Name()
			if name == "Level" || name == "Pref" {
				continue
			}
			if m := c.DeclaredMethod(T, name); m != nil && !seen[m] {
				seen[m] = true
				work = append(work, m)
			}
		}
		for len(work) > 0 {
			fn := work[0]
			work = work[1:]
			nFns++
			for _, f := range core.WithAnon(fn) {
				for _, b := range f.Blocks {
					for _, in := range b.Instrs {
						var addr ssa.Value
						switch x := in.(type) {
						case *ssa.Store:
							addr = x.Addr
						case *ssa.MapUpdate:
							addr = x.Map
						case ssa.CallInstruction:
							if cal := x.Common().StaticCallee(); cal != nil && c.InScope(cal) && core.PkgOf(cal) == core.PkgOf(fn) && !seen[cal] {
								seen[cal] = true
								work = append(work, cal)
							}
							continue
						default:
							continue
						}
						rt := root(addr)
						shared := false
						switch rt.(type) {
						case *ssa.Parameter, *ssa.Global, *ssa.FreeVar:
							shared = true
						}
						if !shared {
							continue
						}
						nStores++
						r.Check(simpleLockHeld(c, in), "C20.R7", fmt.Sprintf("logger-write@%s", core.FnName(f)), c.Pos(in.Pos()),
							"the print path of a logger writes shared logger state only under a lock (loggers are shared by all goroutines of the parallel phases)")
					}
				}
			}
		}
	}
	r.Floor("C20.R7", "functions on the print path of Logger implementations", nFns, 10)
	if nStores == 0 {
		r.Hold("C20.R7", "logger-print-path", "", fmt.Sprintf("no store through the receiver, a parameter, a captured or a package variable in the %d functions of the print path", nFns))
	}
}

// simpleLockHeld: a Lock on a mutex that is not a local variable dominates in and its Unlock is deferred or comes after in.
func simpleLockHeld(c *core.Ctx, in ssa.Instruction) bool {
	fn := in.Parent()
	for _, ci := range core.Calls(fn) {
		if !(core.IsExtCall(ci.Common(), "(*sync.Mutex).Lock") || core.IsExtCall(ci.Common(), "(*sync.RWMutex).Lock")) {
			continue
		}
		if _, isCall := ci.(*ssa.Call); !isCall || !core.Dominates(ci, in) {
			continue
		}
		mu := ci.Common().Args[0]
		if _, local := core.Norm(mu).(*ssa.Alloc); local {
			continue
		}
		for _, cu := range core.Calls(fn) {
			if !(core.IsExtCall(cu.Common(), "(*sync.Mutex).Unlock") || core.IsExtCall(cu.Common(), "(*sync.RWMutex).Unlock")) {
				continue
			}
			if !core.Equiv(cu.Common().Args[0], mu) && core.Norm(cu.Common().Args[0]) != core.Norm(mu) {
				continue
			}
			if _, isDefer := cu.(*ssa.Defer); isDefer && core.Dominates(cu, in) {
				return true
			}
			if _, isCall := cu.(*ssa.Call); isCall && c.InstrPostDominates(cu, in) && !core.Dominates(cu, in) {
				return true
			}
		}
	}
	return false
}

// lockGuardedMaps: T is a struct with a mutex of its own and at least one map field, and every in-scope access to a
// map field of T happens between Lock / RLock on that same object's mutex and the matching unlock (deferred, or
// after the access on every path); updates and deletes need the write lock.
func lockGuardedMaps(c *core.Ctx, T *types.Named) bool {
	if T.Origin() != nil {
		T = T.Origin()
	}
	key := "lock-guarded-maps:" + T.String()
	if v, ok := c.Memo.Load(key); ok {
		return v.(bool)
	}
	res := func() bool {
		st := core.StructOf(T)
		if st == nil {
			return false
		}
		mu := -1
		var maps []int
		for i := 0; i < st.NumFields(); i++ {
			switch ts := st.Field(i).Type().String(); {
			case ts == "sync.Mutex" || ts == "sync.RWMutex":
				mu = i
			default:
				if _, isMap := st.Field(i).Type().Underlying().(*types.Map); isMap {
					maps = append(maps, i)
				}
			}
		}
		if mu < 0 || len(maps) == 0 {
			return false
		}
		isMapField := func(i int) bool {
			for _, m := range maps {
				if m == i {
					return true
				}
			}
			return false
		}
		n := 0
		for fn := range c.AllFns {
			if fn.Blocks == nil {
				continue
			}
			for _, b := range fn.Blocks {
				for _, in := range b.Instrs {
					fa, ok := in.(*ssa.FieldAddr)
					if !ok || !isMapField(fa.Field) {
						continue
					}
					owner := core.NamedOf(fa.X.Type())
					if owner == nil {
						continue
					}
					if owner.Origin() != nil {
						owner = owner.Origin()
					}
					if owner != T {
						continue
					}
					if _, fresh := core.Norm(fa.X).(*ssa.Alloc); fresh {
						continue // the object is being built
					}
					n++
					// how the field is used: written (map update / delete / store of a new map) or read
					write := false
					for _, rf := range *fa.Referrers() {
						switch u := rf.(type) {
						case *ssa.Store:
							write = write || u.Addr == ssa.Value(fa)
						case *ssa.UnOp:
							for _, r2 := range *u.Referrers() {
								switch w := r2.(type) {
								case *ssa.MapUpdate:
									write = write || w.Map == ssa.Value(u)
								case ssa.CallInstruction:
									if bi, isB := w.Common().Value.(*ssa.Builtin); isB && (bi.Name() == "delete" || bi.Name() == "clear") {
										write = true
									}
								}
							}
						}
					}
					if !heldAround(c, fn, fa, mu, write) {
						return false
					}
				}
			}
		}
		return n > 0
	}()
	c.Memo.Store(key, res)
	return res
}

// heldAround: in fn, a Lock (for writes) or Lock / RLock (for reads) on field mu of the same object dominates the
// access, and the matching unlock is deferred or comes after the access on every path.
func heldAround(c *core.Ctx, fn *ssa.Function, access *ssa.FieldAddr, mu int, write bool) bool {
	sameObj := func(v ssa.Value) bool {
		fa, ok := v.(*ssa.FieldAddr)
		return ok && fa.Field == mu && (core.Norm(fa.X) == core.Norm(access.X) || core.Equiv(fa.X, access.X))
	}
	// one critical section per operation: a function that takes the object's lock twice may check in one section and
	// act in the next
	nLocks := 0
	for _, ci := range core.Calls(fn) {
		if (core.IsExtCall(ci.Common(), "(*sync.Mutex).Lock") || core.IsExtCall(ci.Common(), "(*sync.RWMutex).Lock") || core.IsExtCall(ci.Common(), "(*sync.RWMutex).RLock")) && len(ci.Common().Args) > 0 && sameObj(ci.Common().Args[0]) {
			nLocks++
		}
	}
	if nLocks > 1 {
		return false
	}
	for _, ci := range core.Calls(fn) {
		lock := core.IsExtCall(ci.Common(), "(*sync.Mutex).Lock") || core.IsExtCall(ci.Common(), "(*sync.RWMutex).Lock")
		rlock := core.IsExtCall(ci.Common(), "(*sync.RWMutex).RLock")
		if !(lock || (rlock && !write)) || len(ci.Common().Args) == 0 || !sameObj(ci.Common().Args[0]) {
			continue
		}
		if _, isCall := ci.(*ssa.Call); !isCall || !core.Dominates(ci, access) {
			continue
		}
		unlockName := "Unlock"
		if rlock {
			unlockName = "RUnlock"
		}
		for _, cu := range core.Calls(fn) {
			cal := core.Callee(cu.Common())
			if cal == nil || cal.Name() != unlockName || len(cu.Common().Args) == 0 || !sameObj(cu.Common().Args[0]) {
				continue
			}
			if _, isDefer := cu.(*ssa.Defer); isDefer && core.Dominates(cu, access) {
				return true
			}
			if _, isCall := cu.(*ssa.Call); isCall && !core.Dominates(cu, access) && c.InstrPostDominates(cu, access) {
				return true
			}
		}
	}
	return false
}
