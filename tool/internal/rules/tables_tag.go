package rules

import (
	"fmt"
	"go/types"
	"sort"
	"strings"

	"golang.org/x/tools/go/ssa"

	"iocvet/internal/absint"
	"iocvet/internal/core"
)

var tagRows = map[string]string{
	"total":         "no tag text makes the parser, the argument lookups or the required test panic",
	"value":         "the value part is the text before the first top-level comma (commas inside brackets do not count), unchanged",
	"arguments":     "every following segment name=v1 v2 yields the argument name with the space-separated items as values; bracketed groups are never split; a segment without '=' yields one empty value; an empty name is ignored",
	"lookup":        "an argument is found (Find, Has) under its name with either case of the first letter, and only under those",
	"required":      "the point is optional exactly when the tag carries required=false",
	"own-arguments": "every property owns its arguments: changing one property's arguments by program does not change another property built from the same tag text",
	"has-values":    "Has(name, wanted...) holds exactly when one of the wanted texts equals one of the argument's values, byte for byte",
}

// refSplitTop splits s at sep where the bracket depth is zero (reference for balanced texts only).
func refSplitTop(s string, sep byte) []string {
	var out []string
	depth, start := 0, 0
	for i := 0; i < len(s); i++ {
		switch s[i] {
		case '{', '[', '(':
			depth++
		case '}', ']', ')':
			depth--
		}
		if s[i] == sep && depth == 0 {
			out = append(out, s[start:i])
			start = i + 1
		}
	}
	return append(out, s[start:])
}

func refParseTag(tag string) (string, map[string][]string) {
	parts := refSplitTop(tag, ',')
	args := map[string][]string{}
	for _, seg := range parts[1:] {
		name, vals := seg, []string{""}
		if i := strings.IndexByte(seg, '='); i >= 0 {
			name, vals = seg[:i], refSplitTop(seg[i+1:], ' ')
		}
		if name == "" {
			continue
		}
		args[strings.ToUpper(name[:1])+name[1:]] = vals
	}
	return parts[0], args
}

func flipFirst(s string) string {
	if s == "" {
		return s
	}
	up, lo := strings.ToUpper(s[:1]), strings.ToLower(s[:1])
	if s[:1] == up {
		return lo + s[1:]
	}
	return up + s[1:]
}

var faithfulTags = []string{
	"", "v", "v,a", "v,a=1", "v,a=1 2", "v,a=[1 2] 3", "v,a=(x,y) z", "[a,b],x=1", "v,a=1,b=2 3,c", "v,A=1", "v,required=false", "v,Required=false",
	"v,required=true", "v,required", "v,a=1,a=2", "${k:[1,2]},x={a,b} c", "${a.b:d},required=false", "v,a=1=2", "v,a=", " v ,a= 1", "v,timeLayout=2006-01-02",
	"name,qualifier=x y", "v,,a=1", "v,=x", ",a=1", "#{1+2},validate=min=1 max=3", "v,a=[x,y],b={p q}", "日本,arg=本 語",
	// groups nested in groups of the same kind, separators inside the outer one after the inner one has ended
	"${g.${l:en}:Hello, world},x=1", "#{max(${a:1},${b:2})},k", "[[1,2],[3,4]],k=[[a b] c] d", "v,a=((x y) z) w",
	// the value is whatever stands before the first top-level comma: texts that look like arguments included
	"k=v", "required=false", "a=b,required=false", "host=localhost port=5432", "YQ==", "sslmode=disable,x=1", "user=app password=secret,timeout=3 4",
	// ... and texts with characters an escape or quoting convention would give a meaning to
	`C:\data\,required=false`, `x y\,mapper=json`, `a\ b,c=d\ e`, `"q,r",s=1`, `'q',s='1 2'`,
}

var totalityTags = []string{",", ",,", "=", ",=", ",=,", "[", "]", "v,[", "v,a=[", "v,]", "v,a=]", "((", "))", "v, ", "v,\t", " ", "v,a=  ", "}{", "v,{a=1", "v,a=1}", ",,,=,,", "\x00,\xff=\xfe", "v,=", "v,a==", "[,],(,)", "日本,語=本 語", "v,é=1,©=2"}

// tagTable interprets NewProperty (parser), then Find / Has / IsRequired on the property it returned, on concrete tag texts.
func tagTable(c *core.Ctx) (rs rows, runs int, undecided string) {
	rs = rows{}
	newProp := c.Func("component_definition", "NewProperty")
	prop := c.Named("component_definition", "Property")
	tagArg := c.Named("component_definition", "TagArg")
	if newProp == nil || prop == nil || tagArg == nil {
		return rs, 0, "component_definition.NewProperty / Property / TagArg not found"
	}
	find, has, isReq := c.DeclaredMethod(tagArg, "Find"), c.DeclaredMethod(tagArg, "Has"), c.DeclaredMethod(prop, "IsRequired")
	if find == nil || has == nil || isReq == nil {
		return rs, 0, "TagArg.Find / TagArg.Has / Property.IsRequired not found"
	}
	mk := func() *tbl {
		t := newTbl(c)
		stringModels(t)
		t.global = func(g *ssa.Global) absint.Value {
			if g.Pkg != nil && strings.HasSuffix(g.Pkg.Pkg.Path(), "go-kid/strings2") {
				return &absint.Cell{V: absint.NewTok("strings2."+g.Name(), "setting")}
			}
			return nil
		}
		return t
	}
	run := func(fn *ssa.Function, args ...absint.Value) absint.Outcome {
		ip := absint.New(mk())
		ip.IsLog, ip.InScope = core.IsLogCall, c.InScope
		runs++
		return ip.Run(fn, args, nil)
	}
	all := append(append([]string(nil), faithfulTags...), totalityTags...)
	for _, kind := range [][2]string{{"Configuration", "value"}, {"Component", "wire"}} { // the grammar is the same for every kind of point
		for i, tag := range all {
			faithful := i < len(faithfulTags)
			w := fmt.Sprintf("%s tag %q", kind[0], tag)
			field := absint.NewTok("field", "field")
			out := run(newProp, field, absint.Str(kind[0]), absint.Str(kind[1]), absint.Str(tag))
			if out.Undecided != nil {
				return rs, runs, w + ": " + out.Undecided.Msg
			}
			rs.hit("total")
			if out.Panic != nil {
				rs.fail("total", w+": parsing panics: "+out.Panic.Msg)
				continue
			}
			pr, ok := out.Ret[0].(*absint.Tok)
			if !ok {
				return rs, runs, w + ": NewProperty did not return a property object"
			}
			argsV, _ := pr.Fields["args"].(*absint.MapVal)
			if argsV == nil {
				return rs, runs, w + ": the property's argument map was not found (field args)"
			}
			got := map[string][]string{}
			for k, v := range argsV.M {
				l, _ := v.(*absint.List)
				var vals []string
				if l != nil {
					for _, e := range l.Elems {
						s, _ := e.(absint.Str)
						vals = append(vals, string(s))
					}
				}
				got[k] = vals
			}
			show := func(m map[string][]string) string {
				var ks []string
				for k := range m {
					ks = append(ks, fmt.Sprintf("%s=%q", k, m[k]))
				}
				sort.Strings(ks)
				return "{" + strings.Join(ks, " ") + "}"
			}
			// lookups never panic, for stored names and for awkward ones
			names := []string{"required", "Required", "", "x", "é"}
			for k := range got {
				names = append(names, k, flipFirst(k))
			}
			for _, nm := range names {
				if nm == "" {
					continue // an empty argument name is outside the API's domain (formatArgType slices it); callers pass constants
				}
				for _, m := range []*ssa.Function{find, has} {
					args := []absint.Value{argsV, absint.Str(nm)}
					if m == has {
						args = append(args, &absint.List{IsNil: true})
					}
					o := run(m, args...)
					if o.Undecided != nil {
						return rs, runs, w + ": lookup of " + nm + ": " + o.Undecided.Msg
					}
					if o.Panic != nil {
						rs.fail("total", fmt.Sprintf("%s: %s(%q) panics: %s", w, m.Name(), nm, o.Panic.Msg))
					}
				}
			}
			ro := run(isReq, pr)
			if ro.Undecided != nil {
				return rs, runs, w + ": IsRequired: " + ro.Undecided.Msg
			}
			if ro.Panic != nil {
				rs.fail("total", w+": IsRequired panics: "+ro.Panic.Msg)
				continue
			}
			if !faithful {
				continue
			}
			wantVal, wantArgs := refParseTag(tag)
			rs.hit("value")
			if pr.Fields["TagVal"] != absint.Value(absint.Str(wantVal)) || pr.Fields["TagStr"] != absint.Value(absint.Str(wantVal)) {
				rs.fail("value", fmt.Sprintf("%s: value part %s / %s, want %q", w, absint.Show(pr.Fields["TagVal"]), absint.Show(pr.Fields["TagStr"]), wantVal))
			}
			rs.hit("arguments")
			if show(got) != show(wantArgs) {
				rs.fail("arguments", fmt.Sprintf("%s: arguments %s, want %s", w, show(got), show(wantArgs)))
				continue
			}
			rs.hit("lookup")
			for k, vals := range wantArgs {
				for _, nm := range []string{k, flipFirst(k)} {
					o := run(find, argsV, absint.Str(nm))
					okF := o.Panic == nil && len(o.Ret) == 2 && o.Ret[1] == absint.Value(absint.Bool(true))
					if okF {
						l, _ := o.Ret[0].(*absint.List)
						var gv []string
						if l != nil {
							for _, e := range l.Elems {
								s, _ := e.(absint.Str)
								gv = append(gv, string(s))
							}
						}
						okF = fmt.Sprintf("%q", gv) == fmt.Sprintf("%q", vals)
					}
					oh := run(has, argsV, absint.Str(nm), &absint.List{IsNil: true})
					okH := oh.Panic == nil && len(oh.Ret) == 1 && oh.Ret[0] == absint.Value(absint.Bool(true))
					if !okF || !okH {
						rs.fail("lookup", fmt.Sprintf("%s: argument %q not found under %q (Find => %s, Has => %s)", w, k, nm, showOutcome(o), showOutcome(oh)))
					}
				}
			}
			rs.hit("has-values")
			for k, vals := range wantArgs {
				in := func(x string) bool {
					for _, v := range vals {
						if v == x {
							return true
						}
					}
					return false
				}
				swap := func(x string) string {
					b := []byte(x)
					for i := range b {
						switch {
						case b[i] >= 'a' && b[i] <= 'z':
							b[i] -= 32
						case b[i] >= 'A' && b[i] <= 'Z':
							b[i] += 32
						}
					}
					return string(b)
				}
				var probes [][]string
				for _, v := range vals {
					probes = append(probes, []string{v}, []string{swap(v)}, []string{v + "x"}, []string{"other", v}, []string{" " + v})
				}
				probes = append(probes, []string{"never"})
				for _, pr2 := range probes {
					want := false
					l := &absint.List{}
					for _, x := range pr2 {
						want = want || in(x)
						l.Elems = append(l.Elems, absint.Str(x))
					}
					o := run(has, argsV, absint.Str(k), l)
					if o.Undecided != nil {
						return rs, runs, w + ": Has with values: " + o.Undecided.Msg
					}
					if o.Panic != nil || len(o.Ret) != 1 || o.Ret[0] != absint.Value(absint.Bool(want)) {
						rs.fail("has-values", fmt.Sprintf("%s: Has(%q, %q) => %s, want %v (values %q)", w, k, pr2, showOutcome(o), want, vals))
					}
				}
			}
			for _, nm := range []string{"zz", "Zz"} {
				if _, present := wantArgs["Zz"]; present {
					continue
				}
				o := run(find, argsV, absint.Str(nm))
				if o.Panic == nil && len(o.Ret) == 2 && o.Ret[1] != absint.Value(absint.Bool(false)) {
					rs.fail("lookup", fmt.Sprintf("%s: an argument that was never written is found under %q", w, nm))
				}
			}
			rs.hit("required")
			wantReq := true
			if vals, ok := wantArgs["Required"]; ok {
				for _, v := range vals {
					if v == "false" {
						wantReq = false
					}
				}
			}
			if len(ro.Ret) != 1 || ro.Ret[0] != absint.Value(absint.Bool(wantReq)) {
				rs.fail("required", fmt.Sprintf("%s: IsRequired => %s, want %v", w, showOutcome(ro), wantReq))
			}
		}
	}
	// two properties built from the same tag text own separate argument maps
	{
		ip := absint.New(mk())
		ip.IsLog, ip.InScope = core.IsLogCall, c.InScope
		setArg := c.DeclaredMethod(prop, "SetArg")
		o1 := ip.Run(newProp, []absint.Value{absint.NewTok("field1", "field"), absint.Str("Component"), absint.Str("wire"), absint.Str("name,qualifier=x")}, nil)
		o2 := ip.Run(newProp, []absint.Value{absint.NewTok("field2", "field"), absint.Str("Component"), absint.Str("wire"), absint.Str("name,qualifier=x")}, nil)
		runs += 2
		rs.hit("own-arguments")
		p1, ok1 := firstTok(o1)
		p2, ok2 := firstTok(o2)
		switch {
		case o1.Undecided != nil || o2.Undecided != nil:
			msg := ""
			for _, o := range []absint.Outcome{o1, o2} {
				if o.Undecided != nil {
					msg = o.Undecided.Msg
				}
			}
			return rs, runs, "NewProperty called twice with the same text: " + msg
		case !ok1 || !ok2 || setArg == nil:
			rs.fail("own-arguments", "NewProperty did not return property objects / SetArg not found")
		default:
			o3 := ip.Run(setArg, []absint.Value{p1, absint.Str("required"), &absint.List{Elems: []absint.Value{absint.Str("false")}}}, nil)
			runs++
			if o3.Undecided != nil {
				return rs, runs, "SetArg: " + o3.Undecided.Msg
			}
			o4 := ip.Run(isReq, []absint.Value{p2}, nil)
			runs++
			if o4.Undecided != nil {
				return rs, runs, "IsRequired: " + o4.Undecided.Msg
			}
			if p1.Fields["args"] == p2.Fields["args"] || o4.Panic != nil || len(o4.Ret) != 1 || o4.Ret[0] != absint.Value(absint.Bool(true)) {
				rs.fail("own-arguments", "two properties with the tag text \"name,qualifier=x\": after SetArg(required,false) on the first, the second reports IsRequired => "+showOutcome(o4))
			}
		}
	}
	return
}

func firstTok(o absint.Outcome) (*absint.Tok, bool) {
	if o.Panic != nil || len(o.Ret) < 1 {
		return nil, false
	}
	t, ok := o.Ret[0].(*absint.Tok)
	return t, ok
}

var shorthandRows = map[string]string{
	"total":     "no prop tag text makes the shorthand handler panic",
	"shorthand": "prop:\"key,args\" is rewritten to ${key}args, where key is the text before the first top-level comma (commas inside brackets do not count) and args the rest from that comma on",
	"absent":    "a field without a prop tag is left to other scanners",
}

// shorthandHandlers: the in-scope functions that look the prop tag up on a struct field.
func shorthandHandlers(c *core.Ctx) []*ssa.Function {
	propTag := stringConst(c, "definition", "PropTag")
	var out []*ssa.Function
	for _, fn := range c.Scope {
		for _, ci := range core.Calls(fn) {
			if core.IsExtCall(ci.Common(), "(reflect.StructTag).Lookup") && len(ci.Common().Args) == 2 {
				if s, ok := core.ConstString(ci.Common().Args[1]); ok && s == propTag && propTag != "" {
					out = append(out, fn)
				}
			}
		}
	}
	return out
}

func shorthandTable(c *core.Ctx, fn *ssa.Function) (rs rows, runs int, undecided string) {
	rs = rows{}
	metaT, fieldT := c.Named("component_definition", "Meta"), c.Named("component_definition", "Field")
	texts := []string{"${env}.hosts.${zone}", "${a}", "${env}.port:${fallback.port}", "k", "a.b", "a.b,required=false", "k:[1,2,3]", "k:[1,2],validate=max=3", "k:{a,b},x=(1,2) y", "k:(x,y)", "", ",required=false", "k,", "[", "k,[", "]", ",", "k:[1", "日本,語=本"}
	balanced := func(s string) bool {
		d := 0
		for i := 0; i < len(s); i++ {
			switch s[i] {
			case '{', '[', '(':
				d++
			case '}', ']', ')':
				d--
				if d < 0 {
					return false
				}
			}
		}
		return d == 0
	}
	for _, present := range []bool{true, false} {
		for _, text := range texts {
			if !present && text != "k" {
				continue
			}
			t := newTbl(c)
			stringModels(t)
			t.ext["(reflect.StructTag).Lookup"] = func(ip *absint.Interp, a []absint.Value) absint.Value {
				if present {
					return absint.Tuple{absint.Str(text), absint.Bool(true)}
				}
				return absint.Tuple{absint.Str(""), absint.Bool(false)}
			}
			t.ext["(reflect.StructTag).Get"] = func(ip *absint.Interp, a []absint.Value) absint.Value {
				if present {
					return absint.Str(text)
				}
				return absint.Str("")
			}
			var args []absint.Value
			for _, p := range fn.Params {
				switch core.NamedOf(p.Type()) {
				case metaT:
					args = append(args, absint.NewTok("meta", "meta"))
				case fieldT:
					args = append(args, absint.NewTok("field", "field"))
				default:
					args = append(args, absint.NewTok("arg:"+p.Name(), "arg"))
				}
			}
			var bind []absint.Value
			for range fn.FreeVars {
				bind = append(bind, &absint.Cell{V: absint.NewTok("captured", "captured")})
			}
			ip := absint.New(t)
			ip.IsLog, ip.InScope = core.IsLogCall, c.InScope
			out := ip.Run(fn, args, bind)
			runs++
			w := fmt.Sprintf("prop:%q present=%v => %s", text, present, showOutcome(out))
			if out.Undecided != nil {
				return rs, runs, w + ": " + out.Undecided.Msg
			}
			rs.hit("total")
			if out.Panic != nil {
				rs.fail("total", w)
				continue
			}
			if len(out.Ret) != 3 {
				return rs, runs, "the shorthand handler does not return (tag, tagVal, ok)"
			}
			if !present {
				rs.hit("absent")
				if out.Ret[2] != absint.Value(absint.Bool(false)) {
					rs.fail("absent", w)
				}
				continue
			}
			if !balanced(text) {
				continue
			}
			rs.hit("shorthand")
			key := refSplitTop(text, ',')[0]
			want := "${" + key + "}" + text[len(key):]
			if out.Ret[2] != absint.Value(absint.Bool(true)) || out.Ret[1] != absint.Value(absint.Str(want)) {
				rs.fail("shorthand", w+fmt.Sprintf(" want tagVal %q", want))
			}
		}
	}
	return
}

var _ = types.Typ
