package rules

import (
	"fmt"
	"go/types"
	"sort"
	"strings"

	"golang.org/x/tools/go/ssa"

	"iocvet/internal/absint"
	"iocvet/internal/core"
)

func init() { register("C17", c17) }

func c17(c *core.Ctx, r *core.Report) {
	ro := c.Roles()
	r.Explanation = "C17 values reach fields unchanged (flow clauses only): (R1) on the prefix path the argument of Property.Unmarshall is the very SSA value Binder.Get returned for the property's TagVal; (R2) every text-to-value re-typing step (strconv2.ParseAny) whose result reaches Unmarshall, and (R3) every value-to-text step (strconv2.FormatAny) whose text can flow - field-sensitively through Property.TagVal - into such a ParseAny, is reported keyed by the call-site pair; today's value/prop path (tag text -> ParseAny -> Unmarshall, and Binder.Get -> FormatAny -> TagVal -> ParseAny) is the recorded known finding K1, any other pair is a violation; (R4) Unmarshall decodes its parameter itself with a frozen decoder configuration (weak typing on, yaml tag names, no zeroing, result = the pointer SetValue supplies) and (R5) reflectx.SetValue stores exactly what the setter filled, through a fresh value of the field's type (decision table). Decides where re-typing can happen; conversion results (mapstructure, strconv2) are not decided."
	r.Assumptions = []string{"mapstructure converts faithfully for the inputs it is given", "viper returns configured values as written"}
	prop := c.Named("component_definition", "Property")
	if prop == nil {
		r.Undecided("C17.R1", "role:Property", "", "component_definition.Property not found")
		return
	}
	unm := c.DeclaredMethod(prop, "Unmarshall")
	ps := builtinProcessors(c)

	// ---- R1 prefix identity
	prefixes := withRole(ps, "prefix", false)
	r.Floor("C17.R1", "prefix processors", len(prefixes), 1)
	for _, p := range prefixes {
		if p.Roles["value"] || p.Roles["quote"] {
			continue
		}
		var get, um *ssa.Call
		for _, ci := range core.Calls(p.Props) {
			if call, ok := ci.(*ssa.Call); ok {
				if core.IsInvoke(call.Common(), ro.BinderGet) {
					get = call
				}
				if core.IsCallTo(call.Common(), unm) {
					um = call
				}
			}
		}
		cons := "prefix-path:" + p.Name()
		if get == nil || um == nil {
			r.Undecided("C17.R1", cons, c.FnPos(p.Props), "Binder.Get / Unmarshall call not found")
			continue
		}
		same := core.Norm(um.Common().Args[1]) == ssa.Value(get)
		keyIsTagVal := propFieldLoad(c, get.Common().Args[0], "TagVal")
		r.Check(same && keyIsTagVal, "C17.R1", cons, c.Pos(um.Pos()), "Unmarshall receives exactly the value Binder.Get returned for the property's TagVal (no formatting, parsing or copying in between)")
		// nothing but a nil test and recording touches the value in between
		okUses := true
		for _, rf := range *get.Referrers() {
			switch x := rf.(type) {
			case *ssa.BinOp, *ssa.DebugRef:
			case *ssa.Call:
				if x != um && !core.IsLogCall(x.Common()) {
					cal := core.Callee(x.Common())
					if cal == nil || cal.Name() != "SetConfiguration" {
						okUses = false
					}
				}
			case *ssa.MakeInterface, *ssa.Phi:
				okUses = false
			}
		}
		r.Check(okUses, "C17.R1", cons+":untouched", c.Pos(get.Pos()), "between lookup and decoding the value is only nil-tested and recorded")
	}

	// ---- R2 / R3 re-typing steps on the way to Unmarshall
	type site struct {
		call *ssa.Call
		fn   *ssa.Function
	}
	var parses, formats []site
	for _, fn := range c.Scope {
		for _, ci := range core.Calls(fn) {
			call, ok := ci.(*ssa.Call)
			if !ok {
				continue
			}
			if core.IsExtCall(call.Common(), "github.com/go-kid/strconv2.ParseAny") {
				parses = append(parses, site{call, fn})
			}
			if core.IsExtCall(call.Common(), "github.com/go-kid/strconv2.FormatAny") {
				formats = append(formats, site{call, fn})
			}
		}
	}
	r.Count("ParseAny_sites", len(parses))
	r.Count("FormatAny_sites", len(formats))
	// ParseAny results that reach Unmarshall
	var reaching []site
	for _, p := range parses {
		res := core.ResultValue(p.call, 0)
		reach := false
		for _, ci := range core.Calls(p.fn) {
			if core.IsCallTo(ci.Common(), unm) {
				for _, o := range core.Origins(ci.Common().Args[1], nil) {
					if o == res {
						reach = true
					}
				}
			}
		}
		if reach {
			reaching = append(reaching, p)
			r.Fail("C17.R2", "ParseAny@"+core.FnName(p.fn)+"→Unmarshall", c.Pos(p.call.Pos()),
				"tag text is re-typed by strconv2.ParseAny before it is decoded into the field: a string-typed field receives the re-rendered value (\"1.10\" -> \"1.1\", \"007\" -> \"7\", \"TRUE\" -> \"1\")")
			// the parsed text is the property's TagVal as is
			r.Check(propFieldLoad(c, p.call.Common().Args[0], "TagVal"), "C17.R6", "value-path-reads-TagVal:"+core.FnName(p.fn), c.Pos(p.call.Pos()), "the value path parses exactly Property.TagVal (the text after placeholder and expression substitution)")
		}
	}
	// FormatAny texts that can reach TagVal (through a ReplaceAllContent callback result) and from there a reaching ParseAny
	elReplace := c.IfaceMethod("util/el", "Helper", "ReplaceAllContent")
	for _, f := range formats {
		// the formatted text is returned by a literal passed to ReplaceAllContent whose result is stored to TagVal
		lit := f.fn
		if lit.Parent() == nil {
			continue
		}
		returned := false
		for _, ret := range core.Returns(lit) {
			if len(ret.Results) > 0 && core.Norm(ret.Results[0]) == core.ResultValue(f.call, 0) {
				returned = true
			}
		}
		if !returned {
			continue
		}
		toTagVal := false
		for _, ci := range core.Calls(lit.Parent()) {
			call, ok := ci.(*ssa.Call)
			if !ok || !core.IsInvoke(call.Common(), elReplace) || core.ClosureOf(call.Common().Args[1]) != lit {
				continue
			}
			for _, st := range storesToPropField(c, []*ssa.Function{lit.Parent()}, "TagVal") {
				if core.Norm(st.Val) == core.ResultValue(call, 0) {
					toTagVal = true
				}
			}
		}
		if !toTagVal {
			continue
		}
		// what is formatted: a configuration value (Binder.Get / parsed default) or a computed result
		src := "computed value"
		for _, o := range core.Origins(f.call.Common().Args[0], nil) {
			if call, isCall := o.(*ssa.Call); isCall && core.IsInvoke(call.Common(), ro.BinderGet) {
				src = "Binder.Get value"
			}
		}
		for _, p := range reaching {
			if !propFieldLoad(c, p.call.Common().Args[0], "TagVal") {
				continue
			}
			key := "FormatAny@" + core.FnName(f.fn) + "→TagVal→ParseAny@" + core.FnName(p.fn)
			r.Fail("C17.R3", key, c.Pos(f.call.Pos()), "a "+src+" is rendered to text, spliced into the tag and parsed again before decoding: binding through a value placeholder / prop shorthand is not the identity on strings that look like numbers or booleans")
		}
	}

	// ---- R7: what the placeholder stage feeds into the value path is the configured value whenever there is one
	// (false, 0 and "" are values), so that the value path can agree with the prefix path
	for _, p := range withRole(ps, "quote", true) {
		if lit := quoteCallback(c, p); lit != nil {
			prs, _, pund := presenceTable(c, p, lit)
			cons := "presence-table:" + p.Name()
			if pund != "" {
				r.Undecided("C17.R7", cons, c.FnPos(lit), "abstract interpretation left the model: "+pund)
			} else {
				prs.report(c, r, lit, func(row string) string {
					if row == "present" || row == "recorded" {
						return "C17.R7"
					}
					return ""
				}, cons, presenceRows)
			}
		}
	}
	// ---- R4 decoder configuration and flow inside Unmarshall
	if unm == nil {
		r.Undecided("C17.R4", "role:Unmarshall", "", "Property.Unmarshall not found")
	} else {
		c17Decoder(c, r, unm)
	}
	// ---- R5 SetValue table
	c17SetValue(c, r)
}

func c17Decoder(c *core.Ctx, r *core.Report, unm *ssa.Function) {
	cons := "@" + core.FnName(unm)
	fns := core.WithAnon(unm)
	var decode *ssa.Call
	var decodeFn *ssa.Function
	for _, fn := range fns {
		for _, ci := range core.Calls(fn) {
			if call, ok := ci.(*ssa.Call); ok && core.IsExtCall(call.Common(), "(*github.com/mitchellh/mapstructure.Decoder).Decode") {
				decode, decodeFn = call, fn
			}
		}
	}
	if decode == nil {
		r.Undecided("C17.R4", "decode"+cons, c.FnPos(unm), "mapstructure Decode call not found")
		return
	}
	// decoded input is Unmarshall's own parameter
	in := core.Norm(decode.Common().Args[1])
	okIn := false
	if p, isP := in.(*ssa.Parameter); isP && p == unm.Params[1] {
		okIn = true
	}
	if fv, isFV := in.(*ssa.FreeVar); isFV {
		// captured parameter
		for i, f2 := range decodeFn.FreeVars {
			if f2 == fv {
				for _, b := range unm.Blocks {
					for _, ins := range b.Instrs {
						if mc, isMC := ins.(*ssa.MakeClosure); isMC && mc.Fn == ssa.Value(decodeFn) && i < len(mc.Bindings) {
							if st := core.SingleStore(mc.Bindings[i]); st != nil && st == ssa.Value(unm.Params[1]) {
								okIn = true
							}
						}
					}
				}
			}
		}
	}
	if u, isU := in.(*ssa.UnOp); isU {
		if st := core.SingleStore(u.X); st != nil && st == ssa.Value(unm.Params[1]) {
			okIn = true
		}
	}
	r.Check(okIn, "C17.R4", "decodes-its-parameter"+cons, c.Pos(decode.Pos()), "the decoder is fed Unmarshall's configValue parameter itself")
	ud := core.ClassifyErr(decode)
	r.Check(ud.Class == core.ErrTested || ud.Class == core.ErrReturned, "C17.R4", "decode-error"+cons, c.Pos(decode.Pos()), "a decoding error becomes a non-nil return")
	// frozen decoder configuration: constants stored into the DecoderConfig literal
	want := map[string]string{"WeaklyTypedInput": "true", "TagName": "\"yaml\""}
	zeroWanted := []string{"ErrorUnused", "ErrorUnset", "ZeroFields", "Squash", "IgnoreUntaggedFields"}
	got := map[string]string{}
	resultFromParam := false
	nCfg := 0
	for _, fn := range c.Scope {
		for _, b := range fn.Blocks {
			for _, ins := range b.Instrs {
				al, ok := ins.(*ssa.Alloc)
				if !ok {
					continue
				}
				n := core.NamedOf(al.Type())
				if n == nil || n.Obj().Name() != "DecoderConfig" || n.Obj().Pkg() == nil || !strings.HasSuffix(n.Obj().Pkg().Path(), "mapstructure") {
					continue
				}
				nCfg++
				for _, rf := range *al.Referrers() {
					fa, isFA := rf.(*ssa.FieldAddr)
					if !isFA {
						continue
					}
					st := core.StructOf(fa.X.Type())
					name := st.Field(fa.Field).Name()
					for _, r2 := range *fa.Referrers() {
						if s, isSt := r2.(*ssa.Store); isSt {
							if k, isK := s.Val.(*ssa.Const); isK && k.Value != nil {
								got[name] = k.Value.ExactString()
							} else {
								got[name] = "<non-constant>"
							}
							if name == "Result" {
								for _, o := range core.Origins(s.Val, nil) {
									if _, isP := o.(*ssa.Parameter); isP {
										resultFromParam = true
									}
								}
							}
						}
					}
				}
			}
		}
	}
	if !r.Exactly("C17.R4", "mapstructure.DecoderConfig literals in scope", nCfg, 1) {
		return
	}
	bad := ""
	for k, v := range want {
		if got[k] != v {
			bad += fmt.Sprintf(" %s=%s (want %s)", k, got[k], v)
		}
	}
	for _, k := range zeroWanted {
		if v, set := got[k]; set && v != "false" {
			bad += fmt.Sprintf(" %s=%s (want false)", k, v)
		}
	}
	var keys []string
	for k := range got {
		keys = append(keys, k+"="+got[k])
	}
	sort.Strings(keys)
	r.Check(bad == "" && resultFromParam, "C17.R4", "decoder-config", c.FnPos(unm), "decoder configuration matches the frozen table (weakly typed input, yaml tag names, no zeroing / squashing / unused-key errors, result = the supplied pointer): "+strings.Join(keys, " ")+bad)
}

func c17SetValue(c *core.Ctx, r *core.Report) {
	sv := c.Func("util/reflectx", "SetValue")
	if sv == nil {
		r.Undecided("C17.R5", "role:SetValue", "", "reflectx.SetValue not found")
		return
	}
	bad := ""
	runs := 0
	for _, isPtr := range []bool{true, false} {
		for _, fail := range []bool{true, false} {
			var sets, setterArg []string
			build := func() (absint.Oracle, []absint.Value, []absint.Value) {
				sets, setterArg = nil, nil
				t := newTbl(c)
				val := absint.NewTok("field", "rvalue")
				ft := absint.NewTok("T:field", "type")
				et := absint.NewTok("T:elem", "type")
				t.ext["(reflect.Value).Type"] = func(ip *absint.Interp, a []absint.Value) absint.Value { return ft }
				t.invokeN["Kind"] = func(ip *absint.Interp, a []absint.Value) absint.Value {
					if a[0] == absint.Value(ft) && isPtr {
						return absint.Int(22)
					}
					return absint.Int(25)
				}
				t.invokeN["Elem"] = func(ip *absint.Interp, a []absint.Value) absint.Value { return et }
				t.ext["reflect.New"] = func(ip *absint.Interp, a []absint.Value) absint.Value {
					return absint.NewTok("new("+absint.Show(a[0])+")", "rvalue")
				}
				t.ext["(reflect.Value).Interface"] = func(ip *absint.Interp, a []absint.Value) absint.Value {
					return absint.NewTok("iface("+absint.Show(a[0])+")", "iface")
				}
				t.ext["(reflect.Value).Elem"] = func(ip *absint.Interp, a []absint.Value) absint.Value {
					return absint.NewTok("elem("+absint.Show(a[0])+")", "rvalue")
				}
				t.ext["(reflect.Value).Set"] = func(ip *absint.Interp, a []absint.Value) absint.Value {
					sets = append(sets, absint.Show(a[0])+"<-"+absint.Show(a[1]))
					return nil
				}
				setter := absint.NewTok("setter", "func")
				t.dynamic = func(ip *absint.Interp, fn absint.Value, a []absint.Value) (absint.Value, bool) {
					if fn == absint.Value(setter) {
						setterArg = append(setterArg, absint.Show(a[0]))
						if fail {
							return t.newErr("setter"), true
						}
						return absint.Nil{}, true
					}
					return nil, false
				}
				return t, []absint.Value{val, setter}, nil
			}
			check := func(ip *absint.Interp, out absint.Outcome) {
				ty := "T:field"
				if isPtr {
					ty = "T:elem"
				}
				newv := "new(" + ty + ")"
				okArg := len(setterArg) == 1 && setterArg[0] == "iface("+newv+")"
				isErr := len(out.Ret) == 1 && isErrTok(out.Ret[0])
				ok := out.Panic == nil && okArg
				if fail {
					ok = ok && isErr && len(sets) == 0
				} else {
					wantSet := "field<-elem(" + newv + ")"
					if isPtr {
						wantSet = "field<-" + newv
					}
					ok = ok && !isErr && len(sets) == 1 && sets[0] == wantSet
				}
				if !ok {
					bad = fmt.Sprintf("pointerField=%v setterFails=%v setterArg=%v sets=%v => %s", isPtr, fail, setterArg, sets, showOutcome(out))
				}
			}
			k, u := runTable(c, sv, build, check)
			runs += k
			if u != "" {
				bad = "left the model: " + u
			}
		}
	}
	_ = types.Typ
	r.Check(bad == "", "C17.R5", "SetValue@"+core.FnName(sv), c.FnPos(sv), fmt.Sprintf("SetValue lets the setter fill a fresh value of the field's (element) type and stores exactly that, nothing on error (%d abstract runs) %s", runs, bad))
}
