package rules

import (
	"fmt"
	"go/types"
	"strings"

	"golang.org/x/tools/go/ssa"

	"iocvet/internal/absint"
	"iocvet/internal/core"
)

func init() { register("C17", c17) }

func c17(c *core.Ctx, r *core.Report) {
	ro := c.Roles()
	r.Explanation = "C17 values reach fields unchanged (flow clauses only): (R1) on the prefix path the argument of Property.Unmarshall is the very SSA value Binder.Get returned for the property's TagVal; (R2) every text-to-value re-typing step (strconv2.ParseAny) whose result reaches Unmarshall, and (R3) every value-to-text step (strconv2.FormatAny) whose text can flow - field-sensitively through Property.TagVal - into such a ParseAny, is reported keyed by the pair of processors whose stages the two sites belong to (whatever helper or callback they sit in); today's value/prop path (tag text -> ParseAny -> Unmarshall, and Binder.Get -> FormatAny -> TagVal -> ParseAny) is the recorded known finding K1, any other pair is a violation; (R4) Unmarshall decodes its parameter itself with a frozen decoder configuration (weak typing on, yaml tag names, no zeroing, result = the pointer SetValue supplies; decode hooks: durations, the timeLayout hook exactly when the argument is present and nothing converting text to time.Time before it) and (R5) reflectx.SetValue stores exactly what the setter filled, through a fresh value of the field's type (decision table). Decides where re-typing can happen; conversion results (mapstructure, strconv2) are not decided."
	r.Assumptions = []string{"mapstructure converts faithfully for the inputs it is given", "viper returns configured values as written"}
	prop := c.Named("component_definition", "Property")
	if prop == nil {
		r.Undecided("C17.R1", "role:Property", "", "component_definition.Property not found")
		return
	}
	unm := c.DeclaredMethod(prop, "Unmarshall")
	ps := builtinProcessors(c)

	// ---- R1 prefix identity
	prefixes := withRole(ps, "prefix", false)
	r.Floor("C17.R1", "prefix processors", len(prefixes), 1)
	for _, p := range prefixes {
		if p.Roles["value"] || p.Roles["quote"] {
			continue
		}
		var get, um *ssa.Call
		for _, f := range p.Body { // the method or the helper its loop body was moved into
			var g, u *ssa.Call
			for _, ci := range core.Calls(f) {
				if call, ok := ci.(*ssa.Call); ok {
					if core.IsInvoke(call.Common(), ro.BinderGet) {
						g = call
					}
					if core.IsCallTo(call.Common(), unm) {
						u = call
					}
				}
			}
			if g != nil && u != nil {
				get, um = g, u
			}
		}
		cons := "prefix-path:" + p.Name()
		if get == nil || um == nil {
			r.Undecided("C17.R1", cons, c.FnPos(p.Props), "Binder.Get / Unmarshall call not found")
			continue
		}
		same := core.Norm(um.Common().Args[1]) == ssa.Value(get)
		keyIsTagVal := propFieldLoad(c, get.Common().Args[0], "TagVal")
		r.Check(same && keyIsTagVal, "C17.R1", cons, c.Pos(um.Pos()), "Unmarshall receives exactly the value Binder.Get returned for the property's TagVal (no formatting, parsing or copying in between)")
		// nothing but a nil test and recording touches the value in between
		okUses := true
		for _, rf := range *get.Referrers() {
			switch x := rf.(type) {
			case *ssa.BinOp, *ssa.DebugRef:
			case *ssa.Call:
				if x != um && !core.IsLogCall(x.Common()) {
					cal := core.Callee(x.Common())
					if cal == nil || cal.Name() != "SetConfiguration" {
						okUses = false
					}
				}
			case *ssa.MakeInterface, *ssa.Phi:
				okUses = false
			}
		}
		r.Check(okUses, "C17.R1", cons+":untouched", c.Pos(get.Pos()), "between lookup and decoding the value is only nil-tested and recorded")
	}

	// ---- R2 / R3 re-typing steps on the way to Unmarshall
	type site struct {
		call *ssa.Call
		fn   *ssa.Function
	}
	// sites are named by the processor whose stage they belong to (whatever helper or callback they sit in)
	owner := map[*ssa.Function]*procInfo{}
	for _, p := range ps {
		for _, f := range p.Body {
			if owner[f] == nil {
				owner[f] = p
			}
		}
	}
	where := func(fn *ssa.Function) string {
		if p := owner[fn]; p != nil {
			return p.Name()
		}
		return core.FnName(fn)
	}
	var parses, formats []site
	for _, fn := range c.Scope {
		for _, ci := range core.Calls(fn) {
			call, ok := ci.(*ssa.Call)
			if !ok {
				continue
			}
			if core.IsExtCall(call.Common(), "github.com/go-kid/strconv2.ParseAny") {
				parses = append(parses, site{call, fn})
			}
			if core.IsExtCall(call.Common(), "github.com/go-kid/strconv2.FormatAny") {
				formats = append(formats, site{call, fn})
			}
		}
	}
	r.Count("ParseAny_sites", len(parses))
	r.Count("FormatAny_sites", len(formats))
	// ParseAny results that reach Unmarshall
	var reaching []site
	for _, p := range parses {
		res := core.ResultValue(p.call, 0)
		reach := false
		for _, ci := range core.Calls(p.fn) {
			if core.IsCallTo(ci.Common(), unm) {
				for _, o := range core.Origins(ci.Common().Args[1], nil) {
					if o == res {
						reach = true
					}
				}
			}
		}
		if reach {
			reaching = append(reaching, p)
			r.Fail("C17.R2", "ParseAny@"+where(p.fn)+"→Unmarshall", c.Pos(p.call.Pos()),
				"tag text is re-typed by strconv2.ParseAny before it is decoded into the field: a string-typed field receives the re-rendered value (\"1.10\" -> \"1.1\", \"007\" -> \"7\", \"TRUE\" -> \"1\")")
			// the parsed text is the property's TagVal as is
			r.Check(propFieldLoad(c, p.call.Common().Args[0], "TagVal"), "C17.R6", "value-path-reads-TagVal:"+where(p.fn), c.Pos(p.call.Pos()), "the value path parses exactly Property.TagVal (the text after placeholder and expression substitution)")
		}
	}
	// FormatAny texts that can reach TagVal (through a ReplaceAllContent callback result) and from there a reaching ParseAny
	elReplace := c.IfaceMethod("util/el", "Helper", "ReplaceAllContent")
	for _, f := range formats {
		// the formatted text is returned by the callback the owning stage hands to ReplaceAllContent (a literal or a
		// method value), and that stage stores the substituted text to TagVal
		q := owner[f.fn]
		if q == nil {
			continue
		}
		returned := false
		for _, ret := range core.Returns(f.fn) {
			if len(ret.Results) > 0 {
				for _, o := range core.Origins(ret.Results[0], nil) {
					if o == core.ResultValue(f.call, 0) {
						returned = true
					}
				}
			}
		}
		if !returned {
			continue
		}
		toTagVal := false
		for _, h := range q.Body {
			for _, ci := range core.Calls(h) {
				call, ok := ci.(*ssa.Call)
				if !ok || !core.IsInvoke(call.Common(), elReplace) || resolveWrapper(core.ClosureOf(call.Common().Args[1])) != f.fn {
					continue
				}
				for _, st := range storesToPropField(c, q.Body, "TagVal") {
					if core.Norm(st.Val) == core.ResultValue(call, 0) {
						toTagVal = true
					}
				}
			}
		}
		if !toTagVal {
			continue
		}
		// what is formatted: a configuration value (Binder.Get / parsed default) or a computed result
		src := "computed value"
		for _, o := range core.Origins(f.call.Common().Args[0], nil) {
			if call, isCall := o.(*ssa.Call); isCall && core.IsInvoke(call.Common(), ro.BinderGet) {
				src = "Binder.Get value"
			}
		}
		for _, p := range reaching {
			if !propFieldLoad(c, p.call.Common().Args[0], "TagVal") {
				continue
			}
			key := "FormatAny@" + where(f.fn) + "→TagVal→ParseAny@" + where(p.fn)
			r.Fail("C17.R3", key, c.Pos(f.call.Pos()), "a "+src+" is rendered to text, spliced into the tag and parsed again before decoding: binding through a value placeholder / prop shorthand is not the identity on strings that look like numbers or booleans")
		}
	}

	// ---- R7: what the placeholder stage feeds into the value path is the configured value whenever there is one
	// (false, 0 and "" are values), so that the value path can agree with the prefix path
	for _, p := range withRole(ps, "quote", true) {
		if lit := quoteCallback(c, p); lit != nil {
			prs, _, pund := presenceTable(c, p, lit)
			cons := "presence-table:" + p.Name()
			if pund != "" {
				r.Undecided("C17.R7", cons, c.FnPos(lit), "abstract interpretation left the model: "+pund)
			} else {
				prs.report(c, r, lit, func(row string) string {
					if row == "present" || row == "recorded" {
						return "C17.R7"
					}
					return ""
				}, cons, presenceRows)
			}
		}
	}
	// ---- R4 decoder configuration and flow inside Unmarshall
	if unm == nil {
		r.Undecided("C17.R4", "role:Unmarshall", "", "Property.Unmarshall not found")
	} else {
		c17Decoder(c, r, unm)
	}
	// ---- R5 SetValue table
	c17SetValue(c, r)
}

var unmarshallRows = map[string]string{
	"not-configuration": "a property that is not a configuration property is refused with an error and nothing is decoded",
	"nil-value":         "a nil configuration value binds nothing and is not an error",
	"target":            "the value is decoded through reflectx.SetValue on the property's own Value, into the pointer SetValue supplies, and the decoder is fed Unmarshall's parameter itself",
	"config":            "decoder configuration: weakly typed input, tag name yaml (or the mapper argument), no zeroing of fields, no squashing, no unused / unset key errors",
	"error":             "a decoder construction or decoding error becomes a non-nil return; otherwise the result is nil",
	"hooks":             "decode hooks: durations are parsed from text; a timeLayout argument's hook is present exactly when the argument is, and no hook that converts text to time.Time with another layout (another layout hook, the text-unmarshaller hook) runs before it",
}

// c17Decoder: decision table of Property.Unmarshall with whatever helpers it is split into; mapstructure and
// reflectx.SetValue are oracles (SetValue itself is decided by its own table, R5).
func c17Decoder(c *core.Ctx, r *core.Report, unm *ssa.Function) {
	cons := "unmarshall-table@" + core.FnName(unm)
	prop := c.Named("component_definition", "Property")
	tagArg := c.Named("component_definition", "TagArg")
	argsM := c.DeclaredMethod(prop, "Args")
	find := c.DeclaredMethod(tagArg, "Find")
	setValue := c.Func("util/reflectx", "SetValue")
	if argsM == nil || find == nil || setValue == nil {
		r.Undecided("C17.R4", cons, c.FnPos(unm), "Property.Args / TagArg.Find / reflectx.SetValue not found")
		return
	}
	rs := rows{}
	runs := 0
	for _, ptype := range []string{"Configuration", "Component"} {
		for _, nilValue := range []bool{false, true} {
			for _, mapper := range []bool{false, true} {
				for _, layout := range []bool{false, true} {
					var setTargets, decoded []string
					var cfgs []*absint.Tok
					var failed bool
					var target *absint.Tok
					build := func() (absint.Oracle, []absint.Value, []absint.Value) {
						setTargets, decoded, cfgs, failed = nil, nil, nil, false
						t := newTbl(c)
						pr := absint.NewTok("prop", "property")
						fld, base := absint.NewTok("prop.Field", "field"), absint.NewTok("prop.Field.Base", "base")
						pr.Fields["Field"], fld.Fields["Base"] = fld, base
						base.Fields["Value"] = absint.NewTok("prop.Value", "reflected")
						pr.Fields["PropertyType"] = absint.Str(ptype)
						args := absint.NewTok("args", "tagargs")
						pr.Fields["args"] = args
						t.callee[argsM] = func(ip *absint.Interp, a []absint.Value) absint.Value { return args }
						t.callee[find] = func(ip *absint.Interp, a []absint.Value) absint.Value {
							k, _ := a[1].(absint.Str)
							switch {
							case strings.EqualFold(string(k), "mapper") && mapper:
								return absint.Tuple{&absint.List{Elems: []absint.Value{absint.Str("json")}}, absint.Bool(true)}
							case strings.EqualFold(string(k), "timeLayout") && layout:
								return absint.Tuple{&absint.List{Elems: []absint.Value{absint.Str("2006")}}, absint.Bool(true)}
							}
							return absint.Tuple{&absint.List{IsNil: true}, absint.Bool(false)}
						}
						target = absint.NewTok("target", "pointer")
						t.callee[setValue] = func(ip *absint.Interp, a []absint.Value) absint.Value {
							setTargets = append(setTargets, absint.Show(a[0]))
							return ip.CallValue(a[1], target)
						}
						// what a check of the decode target may ask: SetValue hands over a non-nil pointer
						rvTarget := absint.NewTok("reflect.ValueOf(target)", "reflected")
						t.ext["reflect.ValueOf"] = func(ip *absint.Interp, a []absint.Value) absint.Value {
							if a[0] == absint.Value(target) {
								return rvTarget
							}
							panic(&absint.Undecided{Msg: "reflect.ValueOf of " + absint.Show(a[0])})
						}
						t.ext["(reflect.Value).Kind"] = func(ip *absint.Interp, a []absint.Value) absint.Value {
							if a[0] == absint.Value(rvTarget) {
								return absint.Int(22) // reflect.Pointer
							}
							panic(&absint.Undecided{Msg: "Kind of " + absint.Show(a[0])})
						}
						t.ext["(reflect.Value).IsNil"] = func(ip *absint.Interp, a []absint.Value) absint.Value {
							if a[0] == absint.Value(rvTarget) {
								return absint.Bool(false)
							}
							panic(&absint.Undecided{Msg: "IsNil of " + absint.Show(a[0])})
						}
						t.ext["github.com/mitchellh/mapstructure.NewDecoder"] = func(ip *absint.Interp, a []absint.Value) absint.Value {
							if cfg, ok := a[0].(*absint.Tok); ok {
								cfgs = append(cfgs, cfg)
							} else {
								panic(&absint.Undecided{Msg: "NewDecoder on an unmodelled configuration"})
							}
							if ip.Choose(2, "NewDecoder outcome") == 1 {
								failed = true
								return absint.Tuple{absint.Nil{}, t.newErr("newdecoder")}
							}
							return absint.Tuple{absint.NewTok("decoder", "decoder"), absint.Nil{}}
						}
						t.ext["(*github.com/mitchellh/mapstructure.Decoder).Decode"] = func(ip *absint.Interp, a []absint.Value) absint.Value {
							decoded = append(decoded, absint.Show(a[1]))
							if ip.Choose(2, "Decode outcome") == 1 {
								failed = true
								return t.newErr("decode")
							}
							return absint.Nil{}
						}
						for _, h := range []string{"StringToTimeDurationHookFunc", "StringToTimeHookFunc", "StringToSliceHookFunc", "TextUnmarshallerHookFunc", "StringToIPHookFunc", "StringToIPNetHookFunc", "RecursiveStructToMapHookFunc"} {
							h := h
							t.ext["github.com/mitchellh/mapstructure."+h] = func(ip *absint.Interp, a []absint.Value) absint.Value {
								id := strings.TrimSuffix(h, "HookFunc")
								if len(a) > 0 {
									id += "(" + absint.Show(a[0]) + ")"
								}
								return absint.NewTok(id, "hook")
							}
						}
						t.ext["github.com/mitchellh/mapstructure.ComposeDecodeHookFunc"] = func(ip *absint.Interp, a []absint.Value) absint.Value {
							comp := absint.NewTok("composed", "hook")
							var ids []string
							if l, ok := a[0].(*absint.List); ok {
								for _, e := range l.Elems {
									ids = append(ids, absint.Show(e))
								}
							} else {
								panic(&absint.Undecided{Msg: "ComposeDecodeHookFunc on an unmodelled hook list"})
							}
							comp.Attr["hooks"] = absint.Str(strings.Join(ids, " ; "))
							return comp
						}
						var in absint.Value = absint.NewTok("configValue", "any")
						if nilValue {
							in = absint.Nil{}
						}
						return t, []absint.Value{pr, in}, nil
					}
					check := func(ip *absint.Interp, out absint.Outcome) {
						w := fmt.Sprintf("type=%s nil=%v mapper=%v timeLayout=%v: SetValue targets=%v decoded=%v => %s", ptype, nilValue, mapper, layout, setTargets, decoded, showOutcome(out))
						if out.Panic != nil {
							rs.fail("error", "PANIC "+w)
							return
						}
						isErr := len(out.Ret) == 1 && isErrTok(out.Ret[0])
						switch {
						case ptype != "Configuration":
							rs.hit("not-configuration")
							if !isErr || len(decoded) != 0 || len(setTargets) != 0 {
								rs.fail("not-configuration", w)
							}
							return
						case nilValue:
							rs.hit("nil-value")
							if isErr || len(decoded) != 0 {
								rs.fail("nil-value", w)
							}
							return
						}
						rs.hit("error")
						if isErr != failed {
							rs.fail("error", w)
						}
						rs.hit("target")
						okT := len(setTargets) == 1 && setTargets[0] == "prop.Value" && len(cfgs) == 1 && cfgs[0].Fields["Result"] == absint.Value(target)
						if len(decoded) > 1 || (len(decoded) == 1 && decoded[0] != "configValue") || (!failed && len(decoded) != 1) {
							okT = false
						}
						if !okT {
							rs.fail("target", w)
						}
						if len(cfgs) == 1 {
							rs.hit("config")
							cfg := cfgs[0]
							wantTag := "yaml"
							if mapper {
								wantTag = "json"
							}
							bad := ""
							if cfg.Fields["WeaklyTypedInput"] != absint.Value(absint.Bool(true)) {
								bad += " WeaklyTypedInput=" + absint.Show(cfg.Fields["WeaklyTypedInput"])
							}
							if cfg.Fields["TagName"] != absint.Value(absint.Str(wantTag)) {
								bad += " TagName=" + absint.Show(cfg.Fields["TagName"]) + " (want " + wantTag + ")"
							}
							for _, k := range []string{"ErrorUnused", "ErrorUnset", "ZeroFields", "Squash", "IgnoreUntaggedFields"} {
								if v, set := cfg.Fields[k]; set && v != absint.Value(absint.Bool(false)) {
									bad += " " + k + "=" + absint.Show(v)
								}
							}
							if bad != "" {
								rs.fail("config", w+" decoder configuration:"+bad)
							}
							// the hook chain: hooks run in list order and the first one that converts wins
							rs.hit("hooks")
							hooks, known := "", false
							if h, ok := cfg.Fields["DecodeHook"].(*absint.Tok); ok {
								if s, ok := h.Attr["hooks"].(absint.Str); ok {
									hooks, known = string(s), true
								} else {
									hooks, known = h.ID, true // a single hook, not composed
								}
							}
							var list []string
							if hooks != "" {
								list = strings.Split(hooks, " ; ")
							}
							hasDur, layoutAt, timeBefore := false, -1, ""
							foreign := ""
							for i, h := range list {
								if h != "StringToTimeDuration" && h != `StringToTime("2006")` && foreign == "" {
									foreign = h
								}
								switch {
								case h == "StringToTimeDuration":
									hasDur = true
								case h == `StringToTime("2006")`:
									if layoutAt < 0 {
										layoutAt = i
									}
								case strings.HasPrefix(h, "StringToTime(") || h == "TextUnmarshaller":
									// converts text to time.Time as well (time.Time is a TextUnmarshaler reading RFC 3339)
									if layoutAt < 0 {
										timeBefore = h
									}
								}
							}
							switch {
							case !known:
								rs.fail("hooks", w+" DecodeHook is not set to a (composed) mapstructure hook")
							case !hasDur:
								rs.fail("hooks", w+" hooks=["+hooks+"]: no duration hook")
							case layout && (layoutAt < 0 || timeBefore != ""):
								rs.fail("hooks", w+" hooks=["+hooks+"]: the timeLayout argument's hook is missing or preceded by "+timeBefore+", which converts dates with its own layout first")
							case !layout && layoutAt >= 0:
								rs.fail("hooks", w+" hooks=["+hooks+"]: a layout hook without a timeLayout argument")
							case foreign != "" && timeBefore == "":
								rs.fail("hooks", w+" hooks=["+hooks+"]: the hook "+foreign+" is not part of the decoder configuration (durations, and the time layout when it is asked for): it can convert a configured value on its way to the field")
							}
						}
					}
					n, u := runTable(c, unm, build, check)
					runs += n
					if u != "" {
						r.Undecided("C17.R4", cons, c.FnPos(unm), "abstract interpretation left the model: "+u)
						return
					}
				}
			}
		}
	}
	r.Count("unmarshall_table_runs", runs)
	rs.report(c, r, unm, func(string) string { return "C17.R4" }, cons, unmarshallRows)
}

func c17SetValue(c *core.Ctx, r *core.Report) { setValueRules(c, r, "C17.R5") }

// setValueRules: the SetValue decision table, reported under rule.
func setValueRules(c *core.Ctx, r *core.Report, rule string) {
	sv := c.Func("util/reflectx", "SetValue")
	if sv == nil {
		r.Undecided(rule, "role:SetValue", "", "reflectx.SetValue not found")
		return
	}
	bad := ""
	runs := 0
	for _, isPtr := range []bool{true, false} {
		for _, fail := range []bool{true, false} {
			var sets, setterArg []string
			build := func() (absint.Oracle, []absint.Value, []absint.Value) {
				sets, setterArg = nil, nil
				t := newTbl(c)
				val := absint.NewTok("field", "rvalue")
				ft := absint.NewTok("T:field", "type")
				et := absint.NewTok("T:elem", "type")
				t.ext["(reflect.Value).Type"] = func(ip *absint.Interp, a []absint.Value) absint.Value { return ft }
				t.invokeN["Kind"] = func(ip *absint.Interp, a []absint.Value) absint.Value {
					if a[0] == absint.Value(ft) && isPtr {
						return absint.Int(22)
					}
					return absint.Int(25)
				}
				t.invokeN["Elem"] = func(ip *absint.Interp, a []absint.Value) absint.Value { return et }
				t.ext["reflect.New"] = func(ip *absint.Interp, a []absint.Value) absint.Value {
					return absint.NewTok("new("+absint.Show(a[0])+")", "rvalue")
				}
				t.ext["(reflect.Value).Interface"] = func(ip *absint.Interp, a []absint.Value) absint.Value {
					return absint.NewTok("iface("+absint.Show(a[0])+")", "iface")
				}
				t.ext["(reflect.Value).Elem"] = func(ip *absint.Interp, a []absint.Value) absint.Value {
					return absint.NewTok("elem("+absint.Show(a[0])+")", "rvalue")
				}
				t.ext["reflect.Indirect"] = func(ip *absint.Interp, a []absint.Value) absint.Value {
					// Elem() of a pointer, the value itself otherwise: only reflect.New results are pointers here
					if tok, ok := a[0].(*absint.Tok); ok && strings.HasPrefix(tok.ID, "new(") {
						return absint.NewTok("elem("+absint.Show(a[0])+")", "rvalue")
					}
					return a[0]
				}
				t.ext["(reflect.Value).Set"] = func(ip *absint.Interp, a []absint.Value) absint.Value {
					sets = append(sets, absint.Show(a[0])+"<-"+absint.Show(a[1]))
					return nil
				}
				setter := absint.NewTok("setter", "func")
				t.dynamic = func(ip *absint.Interp, fn absint.Value, a []absint.Value) (absint.Value, bool) {
					if fn == absint.Value(setter) {
						setterArg = append(setterArg, absint.Show(a[0]))
						if fail {
							return t.newErr("setter"), true
						}
						return absint.Nil{}, true
					}
					return nil, false
				}
				return t, []absint.Value{val, setter}, nil
			}
			check := func(ip *absint.Interp, out absint.Outcome) {
				ty := "T:field"
				if isPtr {
					ty = "T:elem"
				}
				newv := "new(" + ty + ")"
				okArg := len(setterArg) == 1 && setterArg[0] == "iface("+newv+")"
				isErr := len(out.Ret) == 1 && isErrTok(out.Ret[0])
				ok := out.Panic == nil && okArg
				if fail {
					ok = ok && isErr && len(sets) == 0
				} else {
					wantSet := "field<-elem(" + newv + ")"
					if isPtr {
						wantSet = "field<-" + newv
					}
					ok = ok && !isErr && len(sets) == 1 && sets[0] == wantSet
				}
				if !ok {
					bad = fmt.Sprintf("pointerField=%v setterFails=%v setterArg=%v sets=%v => %s", isPtr, fail, setterArg, sets, showOutcome(out))
				}
			}
			k, u := runTable(c, sv, build, check)
			runs += k
			if u != "" {
				bad = "left the model: " + u
			}
		}
	}
	_ = types.Typ
	r.Check(bad == "", rule, "SetValue@"+core.FnName(sv), c.FnPos(sv), fmt.Sprintf("SetValue lets the setter fill a fresh value of the field's (element) type and stores exactly that, nothing on error (%d abstract runs) %s", runs, bad))
}
