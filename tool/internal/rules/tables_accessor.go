package rules

import (
	"fmt"
	"go/types"

	"golang.org/x/tools/go/ssa"

	"iocvet/internal/absint"
	"iocvet/internal/core"
)

var accessorRows = map[string]string{
	"lookup-first":     "the first thing the accessor asks the singleton registry is GetSingleton(name, allowEarly=true) for its own name",
	"hit":              "a cache hit is handed back unchanged and nothing is created",
	"lookup-error":     "a failing lookup fails the accessor and nothing is created",
	"miss-creates":     "on a miss the registry's create-once protocol is entered exactly once, for the same name, with a factory that creates the definition of that name",
	"created-returned": "what the registry returns from creation is handed on unchanged; its error fails the accessor",
}

// accessorTable interprets the cache accessor - with whatever helpers, named results and exits it has - against a
// registry whose lookup answers miss / hit / error and whose creation answers a component / an error.
func accessorTable(c *core.Ctx, l *lifecycleRoles) (rs rows, runs int, undecided string) {
	ro := c.Roles()
	rs = rows{}
	acc := l.accessor
	var events []string
	var lookup, create int
	var factoryAsked []string
	var hit, created *absint.Tok
	build := func() (absint.Oracle, []absint.Value, []absint.Value) {
		events, lookup, create, factoryAsked = nil, -1, -1, nil
		t := newTbl(c)
		self := absint.NewTok("factory", "factory")
		hit, created = absint.NewTok("cached", "meta"), absint.NewTok("created", "meta")
		t.invoke[ro.SCRGetSingleton] = func(ip *absint.Interp, a []absint.Value) absint.Value {
			events = append(events, fmt.Sprintf("GetSingleton(%s,%s)", absint.Show(a[1]), absint.Show(a[2])))
			lookup = ip.Choose(3, "lookup outcome")
			switch lookup {
			case 1:
				return absint.Tuple{hit, absint.Nil{}}
			case 2:
				return absint.Tuple{absint.Nil{}, t.newErr("lookup")}
			}
			return absint.Tuple{absint.Nil{}, absint.Nil{}}
		}
		t.invoke[ro.SCRIsCreating] = func(ip *absint.Interp, a []absint.Value) absint.Value {
			return absint.Bool(ip.Choose(2, "in creation") == 0)
		}
		t.invoke[ro.DRGetMetaByName] = func(ip *absint.Interp, a []absint.Value) absint.Value {
			factoryAsked = append(factoryAsked, absint.Show(a[1]))
			return absint.Nil{}
		}
		t.invoke[ro.SCRGetOrCreate] = func(ip *absint.Interp, a []absint.Value) absint.Value {
			events = append(events, fmt.Sprintf("GetSingletonOrCreateByFactory(%s)", absint.Show(a[1])))
			// run the factory once, as the registry would: it must ask for the definition of the same name
			switch fv := a[2].(type) {
			case *absint.Closure:
				ip.CallValue(fv)
			case *absint.Tok:
				gt, _ := fv.Attr["gotype"].(types.Type)
				var m *ssa.Function
				if gt != nil {
					if sel := c.Prog.MethodSets.MethodSet(gt).Lookup(ro.SCRGetOrCreate.Pkg(), "GetComponent"); sel != nil {
						m = c.Prog.MethodValue(sel)
					}
				}
				if m == nil {
					panic(&absint.Undecided{Msg: "the factory handed to the registry is not a callable object"})
				}
				ip.CallFunction(m, []absint.Value{fv}, nil)
			default:
				panic(&absint.Undecided{Msg: "the factory handed to the registry is " + absint.Show(a[2])})
			}
			create = ip.Choose(2, "creation outcome")
			if create == 1 {
				return absint.Tuple{absint.Nil{}, t.newErr("create")}
			}
			return absint.Tuple{created, absint.Nil{}}
		}
		args := []absint.Value{self}
		for range acc.Params[1:] {
			args = append(args, absint.Str("name"))
		}
		return t, args, nil
	}
	check := func(ip *absint.Interp, out absint.Outcome) {
		w := fmt.Sprintf("lookup=%d create=%d events=%v factory asked for %v => %s", lookup, create, events, factoryAsked, showOutcome(out))
		if out.Panic != nil {
			rs.fail("lookup-first", "PANIC "+w)
			return
		}
		rs.hit("lookup-first")
		if len(events) == 0 || events[0] != `GetSingleton("name",true)` {
			rs.fail("lookup-first", w)
			return
		}
		isErr := len(out.Ret) == 2 && isErrTok(out.Ret[1])
		first := absint.Value(nil)
		if len(out.Ret) == 2 {
			first = out.Ret[0]
		}
		switch lookup {
		case 1:
			rs.hit("hit")
			if len(events) != 1 || isErr || first != absint.Value(hit) {
				rs.fail("hit", w)
			}
		case 2:
			rs.hit("lookup-error")
			if len(events) != 1 || !isErr {
				rs.fail("lookup-error", w)
			}
		default:
			rs.hit("miss-creates")
			if len(events) != 2 || events[1] != `GetSingletonOrCreateByFactory("name")` || len(factoryAsked) != 1 || factoryAsked[0] != `"name"` {
				rs.fail("miss-creates", w)
				return
			}
			rs.hit("created-returned")
			if create == 1 && !isErr || create == 0 && (isErr || first != absint.Value(created)) {
				rs.fail("created-returned", w)
			}
		}
	}
	runs, undecided = runTable(c, acc, build, check)
	return
}

var _ = core.Mod
