package rules

import (
	"go/types"
	"sort"
	"strings"

	"golang.org/x/tools/go/ssa"

	"iocvet/internal/core"
)

// Event kinds of one component's life cycle (DESIGN §4.1, P4).
const (
	evBeforeInst = "BEFORE_INST"
	evAfterInst  = "AFTER_INST"
	evProps      = "PROPS"
	evInject     = "INJECT"
	evDep        = "DEP"
	evBeforeInit = "BEFORE_INIT"
	evAPS        = "APS"
	evInit       = "INIT"
	evAfterInit  = "AFTER_INIT"
	evEarlyRef   = "EARLYREF"
	evAddFactory = "ADD_FACTORY"
	evCreate     = "CREATE"
	evTrigger    = "TRIGGER"
)

type evset map[string]bool

func (e evset) has(ks ...string) bool {
	for _, k := range ks {
		if !e[k] {
			return false
		}
	}
	return true
}

func (e evset) String() string {
	var s []string
	for k := range e {
		s = append(s, k)
	}
	sort.Strings(s)
	return strings.Join(s, ",")
}

// Events computes event reach summaries.
type Events struct {
	c         *core.Ctx
	ro        *core.Roles
	accessors map[*ssa.Function]bool
	triggers  map[*ssa.Function]bool // public lookup methods of Factory implementations
	direct    map[*types.Func]string
	memo      map[*ssa.Function]evset
}

func newEvents(c *core.Ctx) *Events {
	ro := c.Roles()
	e := &Events{c: c, ro: ro, accessors: map[*ssa.Function]bool{}, memo: map[*ssa.Function]evset{}}
	for _, a := range ro.CacheAccessors() {
		e.accessors[a] = true
	}
	e.triggers = map[*ssa.Function]bool{}
	for _, T := range c.Implementors(c.Iface("container", "Factory")) {
		for _, m := range []string{"GetComponentByName", "GetComponents"} {
			if f := c.DeclaredMethod(T, m); f != nil {
				e.triggers[f] = true
			}
		}
	}
	e.direct = map[*types.Func]string{
		ro.IABeforeInst: evBeforeInst, ro.IAAfterInst: evAfterInst, ro.IAProps: evProps,
		ro.CPBeforeInit: evBeforeInit, ro.APS: evAPS, ro.Init: evInit, ro.CPAfterInit: evAfterInit,
		ro.SmartEarlyRef: evEarlyRef, ro.SCRAddFactory: evAddFactory, ro.SCRGetOrCreate: evCreate,
		ro.FGetComponentByName: evTrigger, ro.FGetComponents: evTrigger,
	}
	return e
}

// direct event of a call instruction, "" if none.
func (e *Events) Direct(com *ssa.CallCommon) string {
	if com.IsInvoke() {
		if k, ok := e.direct[com.Method]; ok && com.Method != nil {
			return k
		}
		return ""
	}
	if core.IsCallTo(com, e.ro.PropertyInject) {
		return evInject
	}
	if cal := com.StaticCallee(); cal != nil && e.accessors[cal] {
		return evDep
	}
	if cal := com.StaticCallee(); cal != nil && e.triggers[cal] {
		return evTrigger
	}
	return ""
}

// Reach: event kinds fn can trigger through in-scope static callees and the literals it creates;
// recursion into the cache accessor is cut (DEP).  Computed as a global fixpoint over all in-scope functions.
func (e *Events) Reach(fn *ssa.Function) evset {
	if e.memo == nil || len(e.memo) == 0 {
		e.computeAll()
	}
	if s, ok := e.memo[fn]; ok {
		return s
	}
	return evset{}
}

func (e *Events) computeAll() {
	fns := e.c.Scope
	for _, f := range fns {
		e.memo[f] = evset{}
	}
	for changed := true; changed; {
		changed = false
		for _, fn := range fns {
			s := e.memo[fn]
			add := func(k string) {
				if k != "" && !s[k] {
					s[k] = true
					changed = true
				}
			}
			for _, b := range fn.Blocks {
				for _, in := range b.Instrs {
					switch x := in.(type) {
					case ssa.CallInstruction:
						com := x.Common()
						if k := e.Direct(com); k != "" {
							add(k)
							if k == evDep {
								continue
							}
						}
						if cal := e.c.ResolvedCallee(com); cal != nil && e.c.InScope(cal) && !e.accessors[cal] && !core.IsLogCall(com) {
							for k := range e.memo[cal] {
								add(k)
							}
						}
					case *ssa.MakeClosure:
						for k := range e.memo[x.Fn.(*ssa.Function)] {
							add(k)
						}
					}
				}
			}
		}
	}
}

// SiteReach: the events a call site can trigger (its direct event plus its callee's reach).
func (e *Events) SiteReach(ci ssa.CallInstruction) evset {
	s := evset{}
	com := ci.Common()
	if k := e.Direct(com); k != "" {
		s[k] = true
		if k == evDep {
			return s
		}
	}
	if cal := e.c.ResolvedCallee(com); cal != nil && e.c.InScope(cal) && !core.IsLogCall(com) {
		for k := range e.Reach(cal) {
			s[k] = true
		}
	}
	// closures passed as arguments run inside the callee
	for _, a := range com.Args {
		if cl := core.ClosureOf(a); cl != nil && e.c.InScope(cl) {
			for k := range e.Reach(cl) {
				s[k] = true
			}
		}
	}
	return s
}

// SitesReaching lists the call sites of fn whose reach contains all of the given kinds.
func (e *Events) SitesReaching(fn *ssa.Function, kinds ...string) []*ssa.Call {
	var out []*ssa.Call
	for _, ci := range core.Calls(fn) {
		call, ok := ci.(*ssa.Call)
		if !ok {
			continue
		}
		if e.SiteReach(call).has(kinds...) {
			out = append(out, call)
		}
	}
	return out
}
