package rules

import (
	"fmt"
	"go/token"
	"go/types"
	"sort"
	"strings"

	"golang.org/x/tools/go/ssa"

	"iocvet/internal/absint"
	"iocvet/internal/core"
)

var closeRows = map[string]string{
	"each-once": "every wired closer is closed exactly once, whatever the other closers answer, and nothing else is closed",
	"counted":   "when closers run in goroutines, the join adds up on every explored schedule: no WaitGroup counter goes negative (a goroutine lowering it before it was raised, or twice), and nobody waits for ever (a counter raised too far or never lowered, a token nobody sends or takes)",
	"awaited":   "when closers run in goroutines, no closer is closed after the closing routine has returned - also on the schedule on which the closing routine runs as far ahead of its goroutines as the program lets it",
	"no-panic":  "the closing routine does not panic",
}

type closeTableResult struct {
	rs    rows
	runs  int
	und   string
	gos   map[token.Pos]bool // the go statements the runs went through
	field string             // the field of the receiver the closers were read from
}

// closeTable interprets the closing routine - with whatever helpers, visitors and launchers it is split into - on 0..3
// wired closers and every combination of their answers, on a sequential schedule (each goroutine runs to completion
// at its go statement) with the WaitGroup as a counter: which closers are closed how often, and whether the counter
// protocol adds up, does not depend on the interleaving.  What the schedule hides - a variable shared between the
// spawning loop and the goroutines, mutual exclusion - is decided structurally by C14.R2 / C20.
// (Since round 9 the goroutines run under absint's cooperative scheduler, on two schedules: see sched.go.)
func closeTable(c *core.Ctx, closeFn *ssa.Function) *closeTableResult {
	key := "close-table:" + core.FnName(closeFn)
	if v, ok := c.Memo.Load(key); ok {
		return v.(*closeTableResult)
	}
	res := &closeTableResult{rs: rows{}, gos: map[token.Pos]bool{}}
	defer c.Memo.Store(key, res)
	ro := c.Roles()
	cc := c.Named("definition", "CloserComponent")
	if cc == nil || ro.CloserClose == nil || len(closeFn.Params) != 1 {
		res.und = "definition.CloserComponent not found, or the closing routine takes parameters"
		return res
	}
	sizes := []int{0, 1, 2, 3}
	ks, tooBig := sizeConstants(c, closeFn)
	if tooBig {
		res.und = "the closing routine compares the number of closers with a constant too large to explore both sides of"
		return res
	}
	for _, k := range ks {
		for _, n := range []int{k - 1, k, k + 1} {
			if n > 3 && !containsInt(sizes, n) {
				sizes = append(sizes, n)
			}
		}
	}
	for _, n := range sizes {
		var trace []string
		var self *absint.Tok
		build := func() (absint.Oracle, []absint.Value, []absint.Value) {
			trace = nil
			t := newTbl(c)
			self = absint.NewTok("app", "app")
			closers := &absint.List{IsNil: n == 0}
			for i := 1; i <= n; i++ {
				closers.Elems = append(closers.Elems, absint.NewTok(fmt.Sprintf("closer%d", i), "closer"))
			}
			t.field = func(ip *absint.Interp, obj *absint.Tok, name string, typ types.Type) absint.Value {
				if sl, ok := typ.Underlying().(*types.Slice); ok && obj == self && types.Identical(sl.Elem(), cc) {
					res.field = name
					return closers
				}
				if b, ok := typ.Underlying().(*types.Basic); ok && b.Kind() == types.Bool && obj == self {
					return absint.Bool(false) // a closed flag: this is the first Close
				}
				return nil
			}
			t.invoke[ro.CloserClose] = func(ip *absint.Interp, a []absint.Value) absint.Value {
				if ip.Returned {
					trace = append(trace, "LATE close("+absint.Show(a[0])+")")
				} else {
					trace = append(trace, "close("+absint.Show(a[0])+")")
				}
				if n <= 3 && ip.Choose(2, "closer outcome") == 1 {
					return t.newErr("close")
				}
				return absint.Nil{}
			}
			t.onSync = func(ev, key string) { trace = append(trace, ev+"@"+key) }
			return t, []absint.Value{receiverFor(closeFn, c.Named("app", "App"), self)}, nil
		}
		check := func(ip *absint.Interp, out absint.Outcome) {
			w := fmt.Sprintf("%d closer(s), %s: %v => %s", n, schedName(ip), trace, showOutcome(out))
			res.rs.hit("no-panic")
			if out.Panic != nil {
				if strings.Contains(out.Panic.Msg, "WaitGroup") {
					res.rs.hit("counted")
					res.rs.fail("counted", w)
				} else {
					res.rs.fail("no-panic", w)
				}
				return
			}
			if out.Deadlock != nil {
				res.rs.hit("counted")
				res.rs.fail("counted", w)
				return
			}
			// each closer exactly once
			res.rs.hit("each-once")
			seen := map[string]int{}
			late := 0
			for _, e := range trace {
				if strings.HasPrefix(e, "close(") {
					seen[e]++
				}
				if strings.HasPrefix(e, "LATE close(") {
					late++
				}
			}
			okOnce := len(seen) == n
			for i := 1; i <= n; i++ {
				okOnce = okOnce && seen[fmt.Sprintf("close(closer%d)", i)] == 1
			}
			if !okOnce {
				res.rs.fail("each-once", w)
			}
			if ip.Goroutines() == 0 {
				return
			}
			// the join, by its meaning: under both schedules (the closing routine as far ahead of its goroutines as
			// it can get, and each goroutine running as soon as it is started) the counter never goes negative, nobody
			// waits for ever, and at the return every goroutine that was started has finished
			res.rs.hit("counted")
			res.rs.hit("awaited")
			if out.Deadlock != nil {
				res.rs.fail("counted", w)
			}
			if late > 0 {
				res.rs.fail("awaited", w+fmt.Sprintf(" (%d closer(s) closed after the return)", late))
			}
		}
		for _, parentFirst := range []bool{true, false} {
			var tape []int
			for {
				orc, args, bind := build()
				ip := absint.New(orc)
				ip.IsLog, ip.InScope, ip.Tape = core.IsLogCall, c.InScope, tape
				ip.Sched, ip.ParentFirst = true, parentFirst
				ip.OnChan = func(op string, ch *absint.Chan) {
					trace = append(trace, fmt.Sprintf("%s@%p", op, ch))
				}
				ip.OnGo = func(g *ssa.Go, enter bool) {
					res.gos[g.Pos()] = true
					trace = append(trace, "go")
				}
				ip.OnGoEnd = func(id int) { trace = append(trace, fmt.Sprintf("end(%d)", id)) }
				out := ip.Run(closeFn, args, bind)
				res.runs++
				if out.Undecided != nil {
					res.und = out.Undecided.Msg
					return res
				}
				check(ip, out)
				next, ok := absint.NextTape(padTape(tape, len(ip.Arity)), ip.Arity)
				if !ok || res.runs > 5000 {
					break
				}
				tape = next
			}
		}
	}
	return res
}

// closeTableDecides: the go statement belongs to a closing routine whose table went through it and holds in every row.
func closeTableDecides(c *core.Ctx, g *ssa.Go) bool {
	closeFn := closingRoutineOf(c, g)
	if closeFn == nil {
		return false
	}
	res := closeTable(c, closeFn)
	if res.und != "" || !res.gos[g.Pos()] {
		return false
	}
	for _, row := range []string{"each-once", "counted", "awaited", "no-panic"} {
		if rr := res.rs[row]; rr == nil || len(rr.bad) > 0 {
			return false
		}
	}
	return true
}

// closingRoutineOf: the exported, parameterless routine from which the go statement's function is reached through
// single callers and the literals it is nested in, provided its goroutine closes closers.
func closingRoutineOf(c *core.Ctx, g *ssa.Go) *ssa.Function {
	ro := c.Roles()
	body := goBodyOf(g)
	if body == nil || ro.CloserClose == nil {
		return nil
	}
	seen := map[*ssa.Function]bool{}
	if !reachesCall(body, func(com *ssa.CallCommon) bool { return core.IsInvoke(com, ro.CloserClose) }, seen) {
		// the goroutine runs a function it was handed (a generic helper owns the fan-out): the closing routine is
		// the one the Close call itself sits in, if its interpretation goes through this go statement
		for _, site := range c.CallSites(func(com *ssa.CallCommon) bool { return core.IsInvoke(com, ro.CloserClose) }) {
			if fn := closingRoutineFrom(c, core.TopLevel(site.Parent())); fn != nil {
				if res := closeTable(c, fn); res.und == "" && res.gos[g.Pos()] {
					return fn
				}
			}
		}
		return nil
	}
	return closingRoutineFrom(c, core.TopLevel(g.Parent()))
}

func closingRoutineFrom(c *core.Ctx, fn *ssa.Function) *ssa.Function {
	for i := 0; i < 4 && fn.Object() != nil && !fn.Object().Exported() && len(c.FuncValueUses(fn)) == 0; i++ {
		var up *ssa.Function
		for _, cl := range c.Callers(fn) {
			t := core.TopLevel(cl)
			if up != nil && up != t {
				return nil
			}
			up = t
		}
		if up == nil || up == fn {
			break
		}
		fn = up
	}
	if len(fn.Params) != 1 || fn.Signature.Recv() == nil {
		return nil
	}
	return fn
}

func schedName(ip *absint.Interp) string {
	if ip.ParentFirst {
		return "the starter runs ahead"
	}
	return "each goroutine runs when started"
}

// sizeConstants: the constants (beyond the sizes every table explores) that the routine, or what it reaches in
// scope, compares a length or a range index with.  The program's behaviour depends on the size of its input only
// through such comparisons (and through loops over it), so the sizes on both sides of each constant stand for all
// sizes; tooBig: a constant too large to be explored.
func sizeConstants(c *core.Ctx, fn *ssa.Function) (ks []int, tooBig bool) {
	reached := map[*ssa.Function]bool{}
	reachesCall(fn, func(*ssa.CallCommon) bool { return false }, reached)
	reached[fn] = true
	var sized func(v ssa.Value, depth int, seen map[ssa.Value]bool) bool
	sized = func(v ssa.Value, depth int, seen map[ssa.Value]bool) bool {
		if v == nil || depth > 6 || seen[v] {
			return false
		}
		seen[v] = true
		switch x := v.(type) {
		case *ssa.Call:
			if b, ok := x.Call.Value.(*ssa.Builtin); ok {
				switch b.Name() {
				case "len", "cap":
					return true
				case "min", "max":
					for _, a := range x.Call.Args {
						if sized(a, depth+1, seen) {
							return true
						}
					}
				}
			}
		case *ssa.BinOp:
			return sized(x.X, depth+1, seen) || sized(x.Y, depth+1, seen)
		case *ssa.Phi:
			for _, e := range x.Edges {
				if sized(e, depth+1, seen) {
					return true
				}
			}
		case *ssa.Convert:
			return sized(x.X, depth+1, seen)
		case *ssa.ChangeType:
			return sized(x.X, depth+1, seen)
		case *ssa.Extract:
			if nx, ok := x.Tuple.(*ssa.Next); ok && x.Index == 1 && !nx.IsString {
				if rg, ok := nx.Iter.(*ssa.Range); ok {
					if _, isMap := rg.X.Type().Underlying().(*types.Map); !isMap {
						return true
					}
				}
			}
		}
		return false
	}
	set := map[int]bool{}
	for f := range reached {
		if !c.InScope(f) {
			continue
		}
		for _, g := range core.WithAnon(f) {
			rls := core.RangeLoops(g)
			isIndex := func(v ssa.Value) bool {
				for _, rl := range rls {
					if v == ssa.Value(rl.Index) || v == rl.Next {
						return true
					}
				}
				return false
			}
			for _, b := range g.Blocks {
				for _, in := range b.Instrs {
					bo, ok := in.(*ssa.BinOp)
					if !ok {
						continue
					}
					switch bo.Op {
					case token.LSS, token.LEQ, token.GTR, token.GEQ, token.EQL, token.NEQ:
					default:
						continue
					}
					for _, pr := range [][2]ssa.Value{{bo.X, bo.Y}, {bo.Y, bo.X}} {
						k, isK := core.ConstInt(pr[0])
						if !isK || k <= 2 {
							continue
						}
						o := pr[1]
						if !isIndex(o) && !sized(o, 0, map[ssa.Value]bool{}) {
							continue
						}
						if k > 100 {
							tooBig = true
						} else {
							set[int(k)] = true
						}
					}
				}
			}
		}
	}
	for k := range set {
		ks = append(ks, k)
	}
	sort.Ints(ks)
	return
}

func containsInt(xs []int, x int) bool {
	for _, y := range xs {
		if y == x {
			return true
		}
	}
	return false
}
