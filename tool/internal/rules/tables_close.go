package rules

import (
	"fmt"
	"go/types"
	"strings"

	"golang.org/x/tools/go/ssa"

	"iocvet/internal/absint"
	"iocvet/internal/core"
)

var closeRows = map[string]string{
	"each-once": "every wired closer is closed exactly once, whatever the other closers answer, and nothing else is closed",
	"counted":   "when closers run in goroutines, every goroutine signals that it is finished exactly once: it lowers a WaitGroup counter that was raised for it before it started (raised by exactly the number of goroutines started), or it sends one token on a channel",
	"awaited":   "when closers run in goroutines, the closing routine waits for all of them after the last one was started and before it returns: Wait on that WaitGroup, or one token received per goroutine",
	"no-panic":  "the closing routine does not panic",
}

type closeTableResult struct {
	rs    rows
	runs  int
	und   string
	gos   map[*ssa.Go]bool // the go statements the runs went through
	field string           // the field of the receiver the closers were read from
}

// closeTable interprets the closing routine - with whatever helpers, visitors and launchers it is split into - on 0..3
// wired closers and every combination of their answers, on a sequential schedule (each goroutine runs to completion
// at its go statement) with the WaitGroup as a counter: which closers are closed how often, and whether the counter
// protocol adds up, does not depend on the interleaving.  What the schedule hides - a variable shared between the
// spawning loop and the goroutines, mutual exclusion - is decided structurally by C14.R2 / C20.
func closeTable(c *core.Ctx, closeFn *ssa.Function) *closeTableResult {
	key := "close-table:" + core.FnName(closeFn)
	if v, ok := c.Memo.Load(key); ok {
		return v.(*closeTableResult)
	}
	res := &closeTableResult{rs: rows{}, gos: map[*ssa.Go]bool{}}
	defer c.Memo.Store(key, res)
	ro := c.Roles()
	cc := c.Named("definition", "CloserComponent")
	if cc == nil || ro.CloserClose == nil || len(closeFn.Params) != 1 {
		res.und = "definition.CloserComponent not found, or the closing routine takes parameters"
		return res
	}
	for n := 0; n <= 3; n++ {
		var trace []string
		var self *absint.Tok
		build := func() (absint.Oracle, []absint.Value, []absint.Value) {
			trace = nil
			t := newTbl(c)
			self = absint.NewTok("app", "app")
			closers := &absint.List{IsNil: n == 0}
			for i := 1; i <= n; i++ {
				closers.Elems = append(closers.Elems, absint.NewTok(fmt.Sprintf("closer%d", i), "closer"))
			}
			t.field = func(ip *absint.Interp, obj *absint.Tok, name string, typ types.Type) absint.Value {
				if sl, ok := typ.Underlying().(*types.Slice); ok && obj == self && types.Identical(sl.Elem(), cc) {
					res.field = name
					return closers
				}
				if b, ok := typ.Underlying().(*types.Basic); ok && b.Kind() == types.Bool && obj == self {
					return absint.Bool(false) // a closed flag: this is the first Close
				}
				return nil
			}
			t.invoke[ro.CloserClose] = func(ip *absint.Interp, a []absint.Value) absint.Value {
				trace = append(trace, "close("+absint.Show(a[0])+")")
				if ip.Choose(2, "closer outcome") == 1 {
					return t.newErr("close")
				}
				return absint.Nil{}
			}
			wgKey := func(v absint.Value) string {
				if fr, ok := v.(*absint.FieldRef); ok {
					return fmt.Sprintf("%p.%s", fr.Obj, fr.Name) // a WaitGroup held by value in a struct field
				}
				return fmt.Sprintf("%p", v)
			}
			t.ext["(*sync.WaitGroup).Add"] = func(ip *absint.Interp, a []absint.Value) absint.Value {
				k, ok := a[1].(absint.Int)
				if !ok {
					panic(&absint.Undecided{Msg: "WaitGroup.Add of a number the model does not know"})
				}
				trace = append(trace, fmt.Sprintf("add(%d)@%s", int64(k), wgKey(a[0])))
				return nil
			}
			t.ext["(*sync.WaitGroup).Done"] = func(ip *absint.Interp, a []absint.Value) absint.Value {
				trace = append(trace, "done@"+wgKey(a[0]))
				return nil
			}
			t.ext["(*sync.WaitGroup).Wait"] = func(ip *absint.Interp, a []absint.Value) absint.Value {
				trace = append(trace, "wait@"+wgKey(a[0]))
				return nil
			}
			return t, []absint.Value{receiverFor(closeFn, c.Named("app", "App"), self)}, nil
		}
		check := func(ip *absint.Interp, out absint.Outcome) {
			w := fmt.Sprintf("%d closer(s): %v => %s", n, trace, showOutcome(out))
			res.rs.hit("no-panic")
			if out.Panic != nil {
				res.rs.fail("no-panic", w)
				return
			}
			// each closer exactly once
			res.rs.hit("each-once")
			seen := map[string]int{}
			for _, e := range trace {
				if strings.HasPrefix(e, "close(") {
					seen[e]++
				}
			}
			okOnce := len(seen) == n
			for i := 1; i <= n; i++ {
				okOnce = okOnce && seen[fmt.Sprintf("close(closer%d)", i)] == 1
			}
			if !okOnce {
				res.rs.fail("each-once", w)
			}
			// the counter protocol, per WaitGroup
			started, depth := 0, 0
			adds := map[string]int64{}
			dones := map[string]int{}
			inGo := map[string]int{} // dones of the goroutine that is running
			lastGo, okCount := -1, true
			waitAfter := map[string]int{}
			var wgs []string
			for i, e := range trace {
				switch {
				case e == "go{":
					started++
					depth++
					inGo = map[string]int{}
					var total int64
					for _, v := range adds {
						total += v
					}
					if total < int64(started) {
						okCount = false // started before the counter was raised for it
					}
				case e == "}go":
					depth--
					lastGo = i
					one := 0
					for _, v := range inGo {
						one += v
					}
					if one != 1 {
						okCount = false
					}
				case strings.HasPrefix(e, "add("):
					var k int64
					var id string
					fmt.Sscanf(e, "add(%d)@%s", &k, &id)
					if _, known := adds[id]; !known {
						wgs = append(wgs, id)
					}
					adds[id] += k
				case strings.HasPrefix(e, "done@"):
					id := strings.TrimPrefix(e, "done@")
					dones[id]++
					if depth > 0 {
						inGo[id]++
					} else {
						okCount = false // lowered by the parent itself
					}
				case strings.HasPrefix(e, "wait@"):
					waitAfter[strings.TrimPrefix(e, "wait@")] = i
				}
			}
			// the other join: one token per goroutine on a channel
			sends := map[string]int{}
			tokenOK, d2 := true, 0
			var inGoSends int
			recvAfter := map[string]int{}
			lastGo2 := -1
			for i, e := range trace {
				switch {
				case e == "go{":
					d2++
					inGoSends = 0
				case e == "}go":
					d2--
					lastGo2 = i
					if inGoSends != 1 {
						tokenOK = false
					}
				case strings.HasPrefix(e, "send@"):
					if d2 > 0 {
						inGoSends++
						sends[strings.TrimPrefix(e, "send@")]++
					}
				case strings.HasPrefix(e, "recv@"):
					if d2 == 0 && i > lastGo2 {
						recvAfter[strings.TrimPrefix(e, "recv@")]++
					}
				}
			}
			if started > 0 && len(adds) == 0 && len(dones) == 0 && len(sends) == 1 {
				res.rs.hit("counted")
				var ch string
				for k := range sends {
					ch = k
				}
				if !tokenOK || sends[ch] != started {
					res.rs.fail("counted", w+fmt.Sprintf(" (goroutines started=%d, tokens sent=%d)", started, sends[ch]))
				}
				res.rs.hit("awaited")
				// every token is received by the parent after the last goroutine was started (under the sequential
				// schedule all goroutines have finished by then; what matters is that none is left unreceived)
				if recvAfter[ch] != started {
					res.rs.fail("awaited", w+fmt.Sprintf(" (goroutines started=%d, tokens received after the last start=%d)", started, recvAfter[ch]))
				}
				return
			}
			if started > 0 {
				res.rs.hit("counted")
				var total int64
				nd := 0
				for _, v := range adds {
					total += v
				}
				for _, v := range dones {
					nd += v
				}
				if !okCount || total != int64(started) || nd != started || len(wgs) != 1 {
					res.rs.fail("counted", w+fmt.Sprintf(" (goroutines started=%d, counter raised by %d, lowered %d time(s), on %d WaitGroup(s))", started, total, nd, len(wgs)))
				}
				res.rs.hit("awaited")
				okWait := len(wgs) == 1
				if okWait {
					at, waited := waitAfter[wgs[0]]
					okWait = waited && at > lastGo
				}
				if !okWait {
					res.rs.fail("awaited", w)
				}
			}
		}
		var tape []int
		for {
			orc, args, bind := build()
			ip := absint.New(orc)
			ip.IsLog, ip.InScope, ip.GoInline, ip.Tape = core.IsLogCall, c.InScope, true, tape
			ip.OnChan = func(op string, ch *absint.Chan) {
				trace = append(trace, fmt.Sprintf("%s@%p", op, ch))
			}
			ip.OnGo = func(g *ssa.Go, enter bool) {
				res.gos[g] = true
				if enter {
					trace = append(trace, "go{")
				} else {
					trace = append(trace, "}go")
				}
			}
			out := ip.Run(closeFn, args, bind)
			res.runs++
			if out.Undecided != nil {
				res.und = out.Undecided.Msg
				return res
			}
			check(ip, out)
			next, ok := absint.NextTape(padTape(tape, len(ip.Arity)), ip.Arity)
			if !ok || res.runs > 5000 {
				break
			}
			tape = next
		}
	}
	return res
}

// closeTableDecides: the go statement belongs to a closing routine whose table went through it and holds in every row.
func closeTableDecides(c *core.Ctx, g *ssa.Go) bool {
	closeFn := closingRoutineOf(c, g)
	if closeFn == nil {
		return false
	}
	res := closeTable(c, closeFn)
	if res.und != "" || !res.gos[g] {
		return false
	}
	for _, row := range []string{"each-once", "counted", "awaited", "no-panic"} {
		if rr := res.rs[row]; rr == nil || len(rr.bad) > 0 {
			return false
		}
	}
	return true
}

// closingRoutineOf: the exported, parameterless routine from which the go statement's function is reached through
// single callers and the literals it is nested in, provided its goroutine closes closers.
func closingRoutineOf(c *core.Ctx, g *ssa.Go) *ssa.Function {
	ro := c.Roles()
	body := goBodyOf(g)
	if body == nil || ro.CloserClose == nil {
		return nil
	}
	seen := map[*ssa.Function]bool{}
	if !reachesCall(body, func(com *ssa.CallCommon) bool { return core.IsInvoke(com, ro.CloserClose) }, seen) {
		return nil
	}
	fn := core.TopLevel(g.Parent())
	for i := 0; i < 4 && fn.Object() != nil && !fn.Object().Exported() && len(c.FuncValueUses(fn)) == 0; i++ {
		var up *ssa.Function
		for _, cl := range c.Callers(fn) {
			t := core.TopLevel(cl)
			if up != nil && up != t {
				return nil
			}
			up = t
		}
		if up == nil || up == fn {
			break
		}
		fn = up
	}
	if len(fn.Params) != 1 || fn.Signature.Recv() == nil {
		return nil
	}
	return fn
}
