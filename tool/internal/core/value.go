package core

import (
	"go/constant"
	"go/token"
	"go/types"

	"golang.org/x/tools/go/ssa"
)

// Norm looks through the plumbing go/ssa inserts around a value: loads of single-store cells
// (closure-spilled parameters and locals), ChangeType, ChangeInterface, MakeInterface, Convert of same underlying.
func Norm(v ssa.Value) ssa.Value {
	for i := 0; i < 16 && v != nil; i++ {
		switch x := v.(type) {
		case *ssa.UnOp:
			if x.Op != token.MUL {
				return v
			}
			if st := SingleStore(x.X); st != nil {
				v = st
				continue
			}
			return v
		case *ssa.ChangeType:
			v = x.X
		case *ssa.ChangeInterface:
			v = x.X
		case *ssa.MakeInterface:
			v = x.X
		default:
			return v
		}
	}
	return v
}

// SingleStore: if addr is an Alloc (or a FreeVar bound to one) that is stored exactly once, return the stored value.
func SingleStore(addr ssa.Value) ssa.Value {
	al := allocOf(addr)
	if al == nil {
		return nil
	}
	var stored ssa.Value
	n := 0
	ok := true
	var scan func(a ssa.Value)
	scan = func(a ssa.Value) {
		if a.Referrers() == nil {
			return
		}
		for _, r := range *a.Referrers() {
			switch y := r.(type) {
			case *ssa.Store:
				if y.Addr == a {
					n++
					stored = y.Val
				} else {
					ok = false // the address itself escapes into memory
				}
			case *ssa.UnOp, *ssa.DebugRef:
			case *ssa.MakeClosure:
				// captured by reference: look at the closure body's uses of the free variable
				fn := y.Fn.(*ssa.Function)
				for i, b := range y.Bindings {
					if b == a && i < len(fn.FreeVars) {
						scan(fn.FreeVars[i])
					}
				}
			default:
				ok = false
			}
		}
	}
	scan(al)
	if ok && n == 1 {
		return stored
	}
	return nil
}

func allocOf(addr ssa.Value) *ssa.Alloc {
	switch x := addr.(type) {
	case *ssa.Alloc:
		return x
	case *ssa.FreeVar:
		// find the binding in the parent
		fn := x.Parent()
		par := fn.Parent()
		if par == nil {
			return nil
		}
		idx := -1
		for i, fv := range fn.FreeVars {
			if fv == x {
				idx = i
			}
		}
		for _, b := range par.Blocks {
			for _, in := range b.Instrs {
				if mc, ok := in.(*ssa.MakeClosure); ok && mc.Fn == ssa.Value(fn) && idx >= 0 && idx < len(mc.Bindings) {
					return allocOf(mc.Bindings[idx])
				}
			}
		}
	}
	return nil
}

// Equiv: a and b denote the same runtime value (structural equality of pure expressions; field loads are
// considered stable when the enclosing function never stores to that field on a path leading to either load).
func Equiv(a, b ssa.Value) bool { return equiv(a, b, 0) }

func equiv(a, b ssa.Value, d int) bool {
	a, b = Norm(a), Norm(b)
	if a == b {
		return true
	}
	if d > 8 || a == nil || b == nil {
		return false
	}
	switch x := a.(type) {
	case *ssa.UnOp:
		y, ok := b.(*ssa.UnOp)
		if !ok || x.Op != y.Op {
			return false
		}
		if x.Op == token.MUL {
			fa, ok1 := x.X.(*ssa.FieldAddr)
			fb, ok2 := y.X.(*ssa.FieldAddr)
			if ok1 && ok2 && fa.Field == fb.Field && equiv(fa.X, fb.X, d+1) {
				return noStoreReaching(fa, x, y)
			}
			return false
		}
		return equiv(x.X, y.X, d+1)
	case *ssa.FieldAddr:
		y, ok := b.(*ssa.FieldAddr)
		return ok && x.Field == y.Field && equiv(x.X, y.X, d+1)
	case *ssa.Field:
		y, ok := b.(*ssa.Field)
		return ok && x.Field == y.Field && equiv(x.X, y.X, d+1)
	case *ssa.Const:
		y, ok := b.(*ssa.Const)
		return ok && types.Identical(x.Type(), y.Type()) && x.Value == y.Value
	case *ssa.Call:
		// len(x) of equivalent x
		y, ok := b.(*ssa.Call)
		if !ok {
			return false
		}
		bx, ok1 := x.Common().Value.(*ssa.Builtin)
		by, ok2 := y.Common().Value.(*ssa.Builtin)
		if ok1 && ok2 && bx.Name() == by.Name() && bx.Name() == "len" {
			return equiv(x.Common().Args[0], y.Common().Args[0], d+1)
		}
	}
	return false
}

// noStoreReaching: no store to the same struct field inside the function can execute before either load.
func noStoreReaching(fa *ssa.FieldAddr, loads ...ssa.Instruction) bool {
	fn := fa.Parent()
	st := StructOf(fa.X.Type())
	for _, b := range fn.Blocks {
		for _, in := range b.Instrs {
			s, ok := in.(*ssa.Store)
			if !ok {
				continue
			}
			sfa, ok := s.Addr.(*ssa.FieldAddr)
			if !ok || sfa.Field != fa.Field || StructOf(sfa.X.Type()) != st {
				continue
			}
			for _, l := range loads {
				if s.Block() == l.Block() {
					if instrIndex(s) < instrIndex(l) {
						return false
					}
					if InLoop(s.Block()) {
						return false
					}
				} else if BlockReaches(s.Block(), l.Block()) {
					return false
				}
			}
		}
	}
	return true
}

// StructOf returns the struct type behind a (pointer to) named struct.
func StructOf(t types.Type) *types.Struct {
	if p, ok := t.Underlying().(*types.Pointer); ok {
		t = p.Elem()
	}
	s, _ := t.Underlying().(*types.Struct)
	return s
}

// NamedOf returns the named type behind pointers.
func NamedOf(t types.Type) *types.Named {
	for {
		switch x := t.(type) {
		case *types.Pointer:
			t = x.Elem()
		case *types.Named:
			return x
		default:
			return nil
		}
	}
}

// FieldRef identifies a struct field by owner named type and name.
type FieldRef struct {
	Owner *types.Named
	Name  string
}

// FieldOfAddr returns the field a FieldAddr denotes.
func FieldOfAddr(fa *ssa.FieldAddr) (FieldRef, bool) {
	n := NamedOf(fa.X.Type())
	st := StructOf(fa.X.Type())
	if n == nil || st == nil || fa.Field >= st.NumFields() {
		return FieldRef{}, false
	}
	if o := n.Origin(); o != nil {
		n = o
	}
	return FieldRef{n, st.Field(fa.Field).Name()}, true
}

// FieldAccess is one load or store of a struct field found in scope.
type FieldAccess struct {
	Instr ssa.Instruction
	Addr  *ssa.FieldAddr
	Store *ssa.Store // nil for loads / address-taken
	Fn    *ssa.Function
}

// FieldAccesses indexes every FieldAddr on (owner, field) in scope: stores and other uses.
func (c *Ctx) FieldAccesses(owner *types.Named, field string) (stores, others []FieldAccess) {
	if owner == nil {
		return
	}
	for _, fn := range c.Scope {
		for _, b := range fn.Blocks {
			for _, in := range b.Instrs {
				fa, ok := in.(*ssa.FieldAddr)
				if !ok {
					continue
				}
				fr, ok := FieldOfAddr(fa)
				if !ok || fr.Owner != owner || fr.Name != field {
					continue
				}
				for _, r := range *fa.Referrers() {
					if s, ok := r.(*ssa.Store); ok && s.Addr == ssa.Value(fa) {
						stores = append(stores, FieldAccess{r, fa, s, fn})
					} else if _, isDbg := r.(*ssa.DebugRef); !isDbg {
						others = append(others, FieldAccess{r, fa, nil, fn})
					}
				}
			}
		}
	}
	return
}

// Origins computes the backward provenance of v: the set of "source" values it may be derived from,
// looking through Phi, Extract (kept with the tuple), conversions, single-store cells, slices, appends
// (element sources), Index/IndexAddr loads (container sources).  visit returns true to stop descending at a value.
func Origins(v ssa.Value, stop func(ssa.Value) bool) []ssa.Value {
	seen := map[ssa.Value]bool{}
	var out []ssa.Value
	var walk func(v ssa.Value, d int)
	walk = func(v ssa.Value, d int) {
		if v == nil || seen[v] {
			return
		}
		seen[v] = true
		if d > 24 {
			out = append(out, v)
			return
		}
		if stop != nil && stop(v) {
			out = append(out, v)
			return
		}
		switch x := v.(type) {
		case *ssa.Phi:
			for _, e := range x.Edges {
				walk(e, d+1)
			}
		case *ssa.ChangeType:
			walk(x.X, d+1)
		case *ssa.ChangeInterface:
			walk(x.X, d+1)
		case *ssa.MakeInterface:
			walk(x.X, d+1)
		case *ssa.Slice:
			walk(x.X, d+1)
		case *ssa.UnOp:
			if x.Op == token.MUL {
				if st := SingleStore(x.X); st != nil {
					walk(st, d+1)
					return
				}
				if al := allocOf(x.X); al != nil {
					// multi-store cell: union of stores
					any := false
					for _, r := range *al.Referrers() {
						if s, ok := r.(*ssa.Store); ok && s.Addr == ssa.Value(al) {
							walk(s.Val, d+1)
							any = true
						}
					}
					if any {
						return
					}
				}
				if ia, ok := x.X.(*ssa.IndexAddr); ok {
					// element of a slice/array: sources are the container's element sources
					walk(ia.X, d+1)
					return
				}
			}
			out = append(out, v)
		case *ssa.Alloc:
			// array backing a varargs slice: union of element stores
			any := false
			for _, r := range *x.Referrers() {
				if ia, ok := r.(*ssa.IndexAddr); ok {
					for _, rr := range *ia.Referrers() {
						if s, ok := rr.(*ssa.Store); ok && s.Addr == ssa.Value(ia) {
							walk(s.Val, d+1)
							any = true
						}
					}
				}
			}
			if !any {
				out = append(out, v)
			}
		case *ssa.Call:
			if bi, ok := x.Common().Value.(*ssa.Builtin); ok && bi.Name() == "append" {
				for _, a := range x.Common().Args {
					walk(a, d+1)
				}
				return
			}
			out = append(out, v)
		case *ssa.Const:
			if !x.IsNil() {
				out = append(out, v)
			}
		default:
			out = append(out, v)
		}
	}
	walk(v, 0)
	return out
}

// IsFieldLoad reports whether v is a load of field `name` of a (pointer to) struct whose named owner is `owner`.
func IsFieldLoad(v ssa.Value, owner *types.Named, name string) (*ssa.FieldAddr, bool) {
	switch x := v.(type) {
	case *ssa.UnOp:
		if x.Op != token.MUL {
			return nil, false
		}
		fa, ok := x.X.(*ssa.FieldAddr)
		if !ok {
			return nil, false
		}
		fr, ok := FieldOfAddr(fa)
		if ok && (owner == nil || fr.Owner == owner) && fr.Name == name {
			return fa, true
		}
	}
	return nil, false
}

// ConstInt returns the integer value of a constant.
func ConstInt(v ssa.Value) (int64, bool) {
	k, ok := v.(*ssa.Const)
	if !ok || k.Value == nil || k.Value.Kind() != constant.Int {
		return 0, false
	}
	i, exact := constant.Int64Val(k.Value)
	return i, exact
}

// ConstString returns the value of a string constant.
func ConstString(v ssa.Value) (string, bool) {
	k, ok := v.(*ssa.Const)
	if !ok || k.Value == nil {
		return "", false
	}
	if b, ok := k.Type().Underlying().(*types.Basic); !ok || b.Info()&types.IsString == 0 {
		return "", false
	}
	if k.Value.Kind() != constant.String {
		return "", false
	}
	return constant.StringVal(k.Value), true
}

// LocalFieldValue: for a load of a struct field, return the value most recently stored to that field in the same
// function when that is unambiguous: exactly one store to the field dominates the load and no other store to the
// field can execute between that store and the load.  Calls in between are assumed not to write the field unless
// an in-scope static callee (transitively) stores to it.
func (c *Ctx) LocalFieldValue(load ssa.Value) (ssa.Value, *ssa.Store) {
	u, ok := load.(*ssa.UnOp)
	if !ok || u.Op != token.MUL {
		return nil, nil
	}
	fa, ok := u.X.(*ssa.FieldAddr)
	if !ok {
		return nil, nil
	}
	fr, ok := FieldOfAddr(fa)
	if !ok {
		return nil, nil
	}
	fn := u.Parent()
	var doms []*ssa.Store
	var all []*ssa.Store
	for _, b := range fn.Blocks {
		for _, in := range b.Instrs {
			s, ok := in.(*ssa.Store)
			if !ok {
				continue
			}
			sfa, ok := s.Addr.(*ssa.FieldAddr)
			if !ok {
				continue
			}
			if sfr, ok := FieldOfAddr(sfa); !ok || sfr != fr || !Equiv(sfa.X, fa.X) {
				continue
			}
			all = append(all, s)
			if StrictlyBefore(s, u) {
				doms = append(doms, s)
			}
		}
	}
	if len(doms) == 0 {
		return nil, nil
	}
	// the latest dominating store
	last := doms[0]
	for _, s := range doms[1:] {
		if StrictlyBefore(last, s) {
			last = s
		}
	}
	for _, s := range all {
		if s == last {
			continue
		}
		// s must not be able to run after last and before the load
		afterLast := s.Block() == last.Block() && instrIndex(s) > instrIndex(last) || s.Block() != last.Block() && BlockReaches(last.Block(), s.Block())
		beforeLoad := s.Block() == u.Block() && instrIndex(s) < instrIndex(u) || s.Block() != u.Block() && BlockReaches(s.Block(), u.Block())
		if afterLast && beforeLoad {
			return nil, nil
		}
	}
	// in-scope static callees between must not store to the field
	writers := map[*ssa.Function]bool{}
	stores, _ := c.FieldAccesses(fr.Owner, fr.Name)
	for _, st := range stores {
		writers[st.Fn] = true
	}
	for _, b := range fn.Blocks {
		for _, in := range b.Instrs {
			ci, ok := in.(ssa.CallInstruction)
			if !ok {
				continue
			}
			if !(StrictlyBefore(last, in) && (in.Block() == u.Block() && instrIndex(in) < instrIndex(u) || in.Block() != u.Block() && BlockReaches(in.Block(), u.Block()))) {
				continue
			}
			if cal := ci.Common().StaticCallee(); cal != nil && c.InScope(cal) {
				for _, g := range c.StaticCalleesInPkg(cal, nil) {
					if writers[g] && g != fn {
						return nil, nil
					}
				}
			}
		}
	}
	return last.Val, last
}
