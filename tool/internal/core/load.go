// Package core loads the type-checked program of /repo and offers the lookups every rule uses.
package core

import (
	"fmt"
	"go/ast"
	"go/token"
	"go/types"
	"os"
	"path/filepath"
	"sort"
	"strings"
	"sync"

	"golang.org/x/tools/go/callgraph"
	"golang.org/x/tools/go/callgraph/cha"
	"golang.org/x/tools/go/packages"
	"golang.org/x/tools/go/ssa"
	"golang.org/x/tools/go/ssa/ssautil"
)

// Mod is the module path of the subject.  Renaming the module is an API break, not a refactor.
const Mod = "github.com/go-kid/ioc"

// Ctx is one loaded program.
type Ctx struct {
	Repo     string
	Tier     string
	Fset     *token.FileSet
	Pkgs     []*packages.Package
	ByPath   map[string]*packages.Package
	Prog     *ssa.Program
	SSAPkg   map[string]*ssa.Package
	AllFns   map[*ssa.Function]bool
	Scope    []*ssa.Function // in-scope functions, sorted by name
	inScope  map[*ssa.Function]bool
	cg       *callgraph.Graph
	seamKeys []*types.Func
	pdoms    map[*ssa.Function]*PostDom
	astFn    map[*ssa.Function]ast.Node
	Memo     sync.Map // per-program results that several rules share (keyed by a string)
}

// InScopePath says whether a package path belongs to the container proper (not tests, not demo mains).
func InScopePath(path string) bool {
	if path != Mod && !strings.HasPrefix(path, Mod+"/") {
		return false
	}
	rel := strings.TrimPrefix(strings.TrimPrefix(path, Mod), "/")
	if rel == "performance_analyst" || rel == "unittest" || strings.HasPrefix(rel, "unittest/") {
		return false
	}
	return true
}

// Load type-checks ./... of repo and builds SSA.  Any error aborts: no verdict is possible.
func Load(repo, tier string) (*Ctx, error) { return LoadVariant(repo, "", tier) }

// variantOverlay compares a scratch copy with the repository and returns the Go files that differ or were added, keyed
// by their path in the repository; ok=false when the variant cannot be expressed that way (a file was removed, the
// module files differ).
func variantOverlay(repo, variant string) (overlay map[string][]byte, ok bool) {
	overlay = map[string][]byte{}
	ok = true
	isSrc := func(p string) bool { return strings.HasSuffix(p, ".go") && !strings.HasSuffix(p, "_test.go") }
	filepath.WalkDir(variant, func(p string, d os.DirEntry, err error) error {
		if err != nil {
			ok = false
			return nil
		}
		rel, _ := filepath.Rel(variant, p)
		if d.IsDir() {
			if d.Name() == ".git" {
				return filepath.SkipDir
			}
			return nil
		}
		base := filepath.Base(p)
		if !isSrc(p) && base != "go.mod" && base != "go.sum" {
			return nil
		}
		nb, err1 := os.ReadFile(p)
		ob, err2 := os.ReadFile(filepath.Join(repo, rel))
		if err1 != nil {
			ok = false
			return nil
		}
		if err2 == nil && string(nb) == string(ob) {
			return nil
		}
		if !isSrc(p) {
			ok = false // module files changed
			return nil
		}
		overlay[filepath.Join(repo, rel)] = nb
		return nil
	})
	filepath.WalkDir(repo, func(p string, d os.DirEntry, err error) error {
		if err != nil {
			return nil
		}
		if d.IsDir() {
			if d.Name() == ".git" {
				return filepath.SkipDir
			}
			return nil
		}
		if isSrc(p) {
			rel, _ := filepath.Rel(repo, p)
			if _, err := os.Stat(filepath.Join(variant, rel)); err != nil {
				ok = false // removed in the variant
			}
		}
		return nil
	})
	return
}

// LoadVariant loads the repository, or - when variant names a scratch copy of it with some files changed - the
// repository with those files overlaid.  The overlay keeps the build's cache keys those of the repository itself (only
// the changed packages and their dependents are compiled anew), so analysing many variants does not fill the build
// cache with one copy of every package per scratch directory.
func LoadVariant(repo, variant, tier string) (*Ctx, error) {
	if os.Getenv("GOWORK") != "" && os.Getenv("GOWORK") != "off" {
		return nil, fmt.Errorf("GOWORK is set")
	}
	abs, err := filepath.Abs(repo)
	if err != nil {
		return nil, err
	}
	var overlay map[string][]byte
	if variant != "" {
		v, err := filepath.Abs(variant)
		if err != nil {
			return nil, err
		}
		if ov, ok := variantOverlay(abs, v); ok {
			overlay = ov
		} else {
			abs = v // not expressible as an overlay: analyse the scratch copy itself
		}
	}
	mode := packages.LoadSyntax
	if os.Getenv("IOCVET_ALLSYNTAX") == "1" {
		mode = packages.LoadAllSyntax
	}
	fset := token.NewFileSet()
	cfg := &packages.Config{Mode: mode, Dir: abs, Fset: fset, Tests: false, Overlay: overlay,
		Env: append(os.Environ(), "GOFLAGS=-mod=mod", "GOPROXY=off", "GOSUMDB=off", "GOWORK=off", "GOTOOLCHAIN=local")}
	pkgs, err := packages.Load(cfg, "./...")
	if err != nil {
		return nil, err
	}
	if len(pkgs) == 0 {
		return nil, fmt.Errorf("no packages loaded from %s", abs)
	}
	var errs []string
	packages.Visit(pkgs, nil, func(p *packages.Package) {
		for _, e := range p.Errors {
			errs = append(errs, e.Error())
		}
	})
	if len(errs) > 0 {
		return nil, fmt.Errorf("%d package errors, first: %s", len(errs), errs[0])
	}
	c := &Ctx{Repo: abs, Tier: tier, Fset: fset, Pkgs: pkgs, ByPath: map[string]*packages.Package{},
		SSAPkg: map[string]*ssa.Package{}, inScope: map[*ssa.Function]bool{}, pdoms: map[*ssa.Function]*PostDom{},
		astFn: map[*ssa.Function]ast.Node{}}
	for _, p := range pkgs {
		c.ByPath[p.PkgPath] = p
	}
	prog, _ := ssautil.Packages(pkgs, ssa.InstantiateGenerics) // bodies for the repository's own packages only (with an overlay the loader parses the dependencies too)
	prog.Build()
	c.Prog = prog
	for _, p := range prog.AllPackages() {
		c.SSAPkg[p.Pkg.Path()] = p
	}
	c.AllFns = ssautil.AllFunctions(prog)
	for fn := range c.AllFns {
		if p := PkgOf(fn); p != nil && InScopePath(p.Pkg.Path()) && fn.Blocks != nil {
			c.inScope[fn] = true
			c.Scope = append(c.Scope, fn)
		}
	}
	// generic functions and methods that are never instantiated are not in AllFunctions: add their generic bodies
	for _, sp := range prog.AllPackages() {
		if !InScopePath(sp.Pkg.Path()) {
			continue
		}
		var add func(f *ssa.Function)
		add = func(f *ssa.Function) {
			if f == nil || f.Blocks == nil || c.inScope[f] {
				return
			}
			c.inScope[f] = true
			c.Scope = append(c.Scope, f)
			for _, a := range f.AnonFuncs {
				add(a)
			}
		}
		for _, m := range sp.Members {
			switch x := m.(type) {
			case *ssa.Function:
				add(x)
			case *ssa.Type:
				if n, ok := x.Type().(*types.Named); ok {
					for i := 0; i < n.NumMethods(); i++ {
						add(prog.FuncValue(n.Method(i)))
					}
				}
			}
		}
	}
	sort.Slice(c.Scope, func(i, j int) bool { return c.Scope[i].String() < c.Scope[j].String() })
	n := 0
	for _, p := range pkgs {
		if InScopePath(p.PkgPath) {
			n++
		}
	}
	if n == 0 {
		return nil, fmt.Errorf("no in-scope packages of %s under %s", Mod, abs)
	}
	// internal seams of this program (a handful at most): resolved once, looked up by IsCallTo; Release drops them
	for _, p := range pkgs {
		if !InScopePath(p.PkgPath) {
			continue
		}
		sc := p.Types.Scope()
		for _, name := range sc.Names() {
			tn, ok := sc.Lookup(name).(*types.TypeName)
			if !ok || tn.Exported() || tn.IsAlias() {
				continue
			}
			iface, ok := tn.Type().Underlying().(*types.Interface)
			if !ok {
				continue
			}
			impls := c.Implementors(iface)
			if len(impls) == 0 {
				// a narrowed view of an external collaborator: the one concrete type in-scope code boxes into it
				var boxed []types.Type
				for _, fn := range c.Scope {
					for _, b := range fn.Blocks {
						for _, in := range b.Instrs {
							mi, ok := in.(*ssa.MakeInterface)
							if !ok || !types.Identical(mi.Type(), tn.Type()) {
								continue
							}
							dup := false
							for _, t := range boxed {
								dup = dup || types.Identical(t, mi.X.Type())
							}
							if !dup {
								boxed = append(boxed, mi.X.Type())
							}
						}
					}
				}
				if len(boxed) == 1 {
					for i := 0; i < iface.NumMethods(); i++ {
						m := iface.Method(i)
						if fn := c.Prog.LookupMethod(boxed[0], m.Pkg(), m.Name()); fn != nil {
							seams.Store(m, fn)
							c.seamKeys = append(c.seamKeys, m)
						}
					}
				}
				continue
			}
			for i := 0; i < iface.NumMethods(); i++ {
				m := iface.Method(i)
				var all []*ssa.Function
				for _, impl := range impls {
					fn := c.Prog.LookupMethod(types.NewPointer(impl), m.Pkg(), m.Name())
					if fn == nil || fn.Blocks == nil {
						continue
					}
					if fn.Synthetic != "" {
						if d := c.DeclaredMethod(impl, m.Name()); d != nil {
							fn = d
						}
					}
					all = append(all, fn)
				}
				if len(all) > 0 {
					seamsAll.Store(m, all)
					c.seamKeys = append(c.seamKeys, m)
				}
			}
			if len(impls) != 1 {
				continue
			}
			for i := 0; i < iface.NumMethods(); i++ {
				m := iface.Method(i)
				fn := c.Prog.LookupMethod(types.NewPointer(impls[0]), m.Pkg(), m.Name())
				if fn == nil || fn.Blocks == nil {
					continue
				}
				if fn.Synthetic != "" {
					if d := c.DeclaredMethod(impls[0], m.Name()); d != nil {
						fn = d
					}
				}
				seams.Store(m, fn)
				c.seamKeys = append(c.seamKeys, m)
			}
		}
	}
	return c, nil
}

// PartOf: package sub is pkg itself or a private part of it - a package below it, or an internal package of the module
// (code moved out of pkg into a package only the module can import still belongs to pkg's mechanisms).
func PartOf(sub, pkg *ssa.Package) bool {
	if sub == nil || pkg == nil {
		return false
	}
	if sub == pkg {
		return true
	}
	sp, pp := sub.Pkg.Path(), pkg.Pkg.Path()
	if !InScopePath(sp) {
		return false
	}
	return strings.HasPrefix(sp, pp+"/") || strings.Contains(sp, "/internal/") || strings.HasSuffix(sp, "/internal")
}

// PkgOf returns the defining package of a function, looking through closures and generic instances.
func PkgOf(f *ssa.Function) *ssa.Package {
	for f != nil {
		if f.Pkg != nil {
			return f.Pkg
		}
		if o := f.Origin(); o != nil && o.Pkg != nil {
			return o.Pkg
		}
		f = f.Parent()
	}
	return nil
}

func (c *Ctx) InScope(f *ssa.Function) bool { return c.inScope[f] }

// CG is the class-hierarchy call graph (built lazily).
func (c *Ctx) CG() *callgraph.Graph {
	if c.cg == nil {
		c.cg = cha.CallGraph(c.Prog)
	}
	return c.cg
}

// Pos renders a position relative to the repo root.
func (c *Ctx) Pos(p token.Pos) string {
	if !p.IsValid() {
		return "-"
	}
	po := c.Fset.Position(p)
	rel, err := filepath.Rel(c.Repo, po.Filename)
	if err != nil {
		rel = po.Filename
	}
	return fmt.Sprintf("%s:%d", rel, po.Line)
}

// FnPos is the position of a function, falling back to its parent for synthetic ones.
func (c *Ctx) FnPos(f *ssa.Function) string {
	for f != nil {
		if f.Pos().IsValid() {
			return c.Pos(f.Pos())
		}
		if f.Origin() != nil {
			f = f.Origin()
			continue
		}
		f = f.Parent()
	}
	return "-"
}

// Short strips the module prefix from a name.
func Short(s string) string { return strings.ReplaceAll(s, Mod+"/", "") }

// FnName is the stable, role-qualified name of a function (no line numbers).
func FnName(f *ssa.Function) string {
	if f == nil {
		return "<nil>"
	}
	if o := f.Origin(); o != nil {
		return Short(o.String())
	}
	return Short(f.String())
}

// ---- type / object lookups -------------------------------------------------------------

// Named returns the named type pkgRel.name (pkgRel relative to the module, "" for the root).
func (c *Ctx) Named(pkgRel, name string) *types.Named {
	path := Mod
	if pkgRel != "" {
		path = Mod + "/" + pkgRel
	}
	p := c.ByPath[path]
	if p == nil || p.Types == nil {
		return nil
	}
	o := p.Types.Scope().Lookup(name)
	if o == nil {
		return nil
	}
	n, _ := o.Type().(*types.Named)
	return n
}

// Iface returns the interface type pkgRel.name.
func (c *Ctx) Iface(pkgRel, name string) *types.Interface {
	n := c.Named(pkgRel, name)
	if n == nil {
		return nil
	}
	i, _ := n.Underlying().(*types.Interface)
	return i
}

// IfaceMethod returns the method object of an interface (also through embedded interfaces).
func (c *Ctx) IfaceMethod(pkgRel, iface, method string) *types.Func {
	n := c.Named(pkgRel, iface)
	if n == nil {
		return nil
	}
	o, _, _ := types.LookupFieldOrMethod(n, false, n.Obj().Pkg(), method)
	f, _ := o.(*types.Func)
	return f
}

// Func returns the package-level function pkgRel.name.
func (c *Ctx) Func(pkgRel, name string) *ssa.Function {
	path := Mod
	if pkgRel != "" {
		path = Mod + "/" + pkgRel
	}
	p := c.SSAPkg[path]
	if p == nil {
		return nil
	}
	return p.Func(name)
}

// Method returns the SSA function of method name on T or *T.
func (c *Ctx) Method(T types.Type, name string) *ssa.Function {
	for _, t := range []types.Type{T, types.NewPointer(T)} {
		ms := c.Prog.MethodSets.MethodSet(t)
		for i := 0; i < ms.Len(); i++ {
			if ms.At(i).Obj().Name() == name {
				return c.Prog.MethodValue(ms.At(i))
			}
		}
	}
	return nil
}

// DeclaredMethod returns the method only if it is declared on the named type itself (not promoted).
func (c *Ctx) DeclaredMethod(T *types.Named, name string) *ssa.Function {
	return c.declaredMethod(T, name, 0)
}

func (c *Ctx) declaredMethod(T *types.Named, name string, depth int) *ssa.Function {
	if T == nil {
		return nil
	}
	for i := 0; i < T.NumMethods(); i++ {
		if T.Method(i).Name() == name {
			return c.Prog.FuncValue(T.Method(i))
		}
	}
	// a part of T split off into an unexported struct of the same package that T embeds by value: its methods are
	// T's own (calls of the promoted method compile to calls of this function)
	st, ok := T.Underlying().(*types.Struct)
	if !ok || depth > 1 {
		return nil
	}
	for i := 0; i < st.NumFields(); i++ {
		f := st.Field(i)
		if !f.Embedded() {
			continue
		}
		n, isNamed := f.Type().(*types.Named)
		if !isNamed || n.Obj().Exported() || n.Obj().Pkg() != T.Obj().Pkg() {
			continue
		}
		if _, isStruct := n.Underlying().(*types.Struct); !isStruct {
			continue
		}
		if m := c.declaredMethod(n, name, depth+1); m != nil {
			return m
		}
	}
	return nil
}

// Implementors lists the in-scope named (non-interface) types T such that T or *T implements iface.
func (c *Ctx) Implementors(iface *types.Interface) []*types.Named {
	var out []*types.Named
	if iface == nil {
		return nil
	}
	for _, p := range c.Pkgs {
		if !InScopePath(p.PkgPath) {
			continue
		}
		sc := p.Types.Scope()
		for _, name := range sc.Names() {
			tn, ok := sc.Lookup(name).(*types.TypeName)
			if !ok || tn.IsAlias() {
				continue
			}
			n, ok := tn.Type().(*types.Named)
			if !ok || types.IsInterface(n) || n.TypeParams().Len() > 0 {
				continue
			}
			if types.Implements(n, iface) || types.Implements(types.NewPointer(n), iface) {
				out = append(out, n)
			}
		}
	}
	sort.Slice(out, func(i, j int) bool { return out[i].String() < out[j].String() })
	return out
}

// ---- call helpers ----------------------------------------------------------------------

// Callee returns the static callee of a call folded onto its generic origin, or nil.
func Callee(com *ssa.CallCommon) *ssa.Function {
	f := com.StaticCallee()
	if f == nil {
		return nil
	}
	if o := f.Origin(); o != nil {
		return o
	}
	return f
}

// IsInvoke reports whether the call is an interface invoke of exactly this method object.
func IsInvoke(com *ssa.CallCommon, m *types.Func) bool {
	if m == nil || !com.IsInvoke() {
		return false
	}
	return com.Method == m || NarrowedView(com.Method, m, com.Value.Type())
}

// NarrowedView: got is the method of an unexported in-scope interface that repeats contract method want (same name and
// signature): code that holds its collaborator through such a narrowed view still calls the contract method.
func NarrowedView(got, want *types.Func, recvType types.Type) bool {
	if got == nil || want == nil || got.Name() != want.Name() {
		return false
	}
	n := NamedOf(recvType)
	if n == nil || n.Obj().Exported() || n.Obj().Pkg() == nil || !InScopePath(n.Obj().Pkg().Path()) {
		return false
	}
	if _, isIface := n.Underlying().(*types.Interface); !isIface {
		return false
	}
	gs, ok1 := got.Type().(*types.Signature)
	ws, ok2 := want.Type().(*types.Signature)
	if !ok1 || !ok2 {
		return false
	}
	return types.Identical(types.NewSignatureType(nil, nil, nil, gs.Params(), gs.Results(), gs.Variadic()), types.NewSignatureType(nil, nil, nil, ws.Params(), ws.Results(), ws.Variadic()))
}

// IsCallTo reports whether the call's static callee (origin-folded) is fn.
// seams: interface method of an internal seam (see Ctx.InternalImpl) -> its unique implementation, for all loaded
// programs (method objects are unique per load).
var seams sync.Map

// Seam resolves an invoke through an internal seam.
func Seam(com *ssa.CallCommon) *ssa.Function {
	if !com.IsInvoke() {
		return nil
	}
	if f, ok := seams.Load(com.Method); ok {
		return f.(*ssa.Function)
	}
	return nil
}

// seamsAll: method of an unexported in-scope interface -> the methods of all its in-scope implementations (strategy and
// stage objects: the set of implementations is closed, nobody outside the module can add one).
var seamsAll sync.Map

// SeamAll resolves an invoke through an unexported in-scope interface to every implementation.
func SeamAll(com *ssa.CallCommon) []*ssa.Function {
	if !com.IsInvoke() {
		return nil
	}
	if f, ok := seamsAll.Load(com.Method); ok {
		return f.([]*ssa.Function)
	}
	return nil
}

// Release drops what Load registered globally for this program, and the package-level memos keyed by parts of a
// program (they would keep every program analysed by this process alive).
func (c *Ctx) Release() {
	for _, k := range c.seamKeys {
		seamsAll.Delete(k)
		seams.Delete(k)
	}
	c.seamKeys = nil
	releaseMu.Lock()
	hooks := append([]func(){}, releaseHooks...)
	releaseMu.Unlock()
	for _, h := range hooks {
		h()
	}
}

var (
	releaseMu    sync.Mutex
	releaseHooks []func()
)

// OnRelease registers a function that empties a package-level memo (memos are pure: emptying one while another
// program is being analysed only costs a recomputation).
func OnRelease(f func()) {
	releaseMu.Lock()
	releaseHooks = append(releaseHooks, f)
	releaseMu.Unlock()
}

func clearMap(m *sync.Map) {
	m.Range(func(k, _ any) bool { m.Delete(k); return true })
}

// ClearMap empties a sync.Map used as a memo.
func ClearMap(m *sync.Map) { clearMap(m) }

func init() {
	OnRelease(func() { clearMap(&loopCache); clearMap(&rangeLoopCache); clearMap(&wrapsParamMemo) })
}

func IsCallTo(com *ssa.CallCommon, fn *ssa.Function) bool {
	if fn == nil {
		return false
	}
	cal := Callee(com)
	if cal == nil && com.IsInvoke() {
		cal = Seam(com)
	}
	if cal == nil {
		return false
	}
	if o := fn.Origin(); o != nil {
		fn = o
	}
	return cal == fn
}

// IsExtCall reports whether the call's static callee is the external function/method with this full name,
// e.g. "(reflect.Value).Set", "(*sync.WaitGroup).Wait", "sort.Slice".
func IsExtCall(com *ssa.CallCommon, full string) bool {
	cal := Callee(com)
	if cal == nil && com.IsInvoke() {
		cal = Seam(com) // the external collaborator behind a narrowed view
	}
	return cal != nil && cal.String() == full
}

// Calls lists every call instruction (Call, Go, Defer) of a function in block/instruction order.
func Calls(fn *ssa.Function) []ssa.CallInstruction {
	var out []ssa.CallInstruction
	for _, b := range fn.Blocks {
		for _, in := range b.Instrs {
			if ci, ok := in.(ssa.CallInstruction); ok {
				out = append(out, ci)
			}
		}
	}
	return out
}

// CallsMatching filters Calls by a predicate.
func CallsMatching(fn *ssa.Function, pred func(*ssa.CallCommon) bool) []ssa.CallInstruction {
	var out []ssa.CallInstruction
	for _, ci := range Calls(fn) {
		if pred(ci.Common()) {
			out = append(out, ci)
		}
	}
	return out
}

// WithAnon returns fn and all function literals nested in it.
func WithAnon(fn *ssa.Function) []*ssa.Function {
	out := []*ssa.Function{fn}
	for _, a := range fn.AnonFuncs {
		out = append(out, WithAnon(a)...)
	}
	return out
}

// IsSyslog reports whether a package path is the repository's logging package.
func IsSyslogPath(path string) bool { return path == Mod+"/syslog" }

// IsLogCall: a call into syslog (static or through the Logger interface).  Logging is effect-free for every rule.
func IsLogCall(com *ssa.CallCommon) bool {
	if com.IsInvoke() {
		return com.Method.Pkg() != nil && IsSyslogPath(com.Method.Pkg().Path())
	}
	if cal := Callee(com); cal != nil {
		if p := PkgOf(cal); p != nil && IsSyslogPath(p.Pkg.Path()) {
			return true
		}
	}
	return false
}

// ErrType is the predeclared error type.
var ErrType = types.Universe.Lookup("error").Type()

// ReturnsError reports whether a signature's last result is error.
func ReturnsError(sig *types.Signature) bool {
	r := sig.Results()
	return r.Len() > 0 && types.Identical(r.At(r.Len()-1).Type(), ErrType)
}

// IsNilConst reports whether v is the nil constant.
func IsNilConst(v ssa.Value) bool {
	k, ok := v.(*ssa.Const)
	return ok && k.IsNil()
}
