package core

import (
	"go/types"
	"sort"

	"golang.org/x/tools/go/ssa"
)

// Roles locates the subjects of the rules by what they do with the public contracts (DESIGN §3).
type Roles struct {
	c *Ctx

	// contract method objects
	SCRGetSingleton, SCRGetOrCreate, SCRAddFactory, SCRAddSingleton, SCRIsCreating, SCRRemove *types.Func
	SFGetComponent                                                                            *types.Func
	DRGetMetas, DRGetMetaByName, DRGetMetaOrRegister, DRRegisterMeta                          *types.Func
	FGetComponentByName, FGetComponents, FRefresh, FPrepare                                   *types.Func
	CPBeforeInit, CPAfterInit                                                                 *types.Func
	IABeforeInst, IAAfterInst, IAProps                                                        *types.Func
	SmartEarlyRef                                                                             *types.Func
	APS, Init, RunnerRun, CloserClose, LoaderLoad, BinderSetConfig, BinderGet                 *types.Func
	DRPPPostProcess, CFPPPostProcess                                                          *types.Func
	OrderedOrder                                                                              *types.Func

	// role functions
	PropertyInject *ssa.Function
	NewMeta        *ssa.Function
	CreateProxy    *ssa.Function
	Sorter         *ssa.Function
}

func (c *Ctx) Roles() *Roles {
	r := &Roles{c: c}
	im := c.IfaceMethod
	r.SCRGetSingleton = im("container", "SingletonComponentRegistry", "GetSingleton")
	r.SCRGetOrCreate = im("container", "SingletonComponentRegistry", "GetSingletonOrCreateByFactory")
	r.SCRAddFactory = im("container", "SingletonComponentRegistry", "AddSingletonFactory")
	r.SCRAddSingleton = im("container", "SingletonComponentRegistry", "AddSingleton")
	r.SCRIsCreating = im("container", "SingletonComponentRegistry", "IsSingletonCurrentlyInCreation")
	r.SCRRemove = im("container", "SingletonComponentRegistry", "RemoveSingleton")
	r.SFGetComponent = im("container", "SingletonFactory", "GetComponent")
	r.DRGetMetas = im("container", "DefinitionRegistry", "GetMetas")
	r.DRGetMetaByName = im("container", "DefinitionRegistry", "GetMetaByName")
	r.DRGetMetaOrRegister = im("container", "DefinitionRegistry", "GetMetaOrRegister")
	r.DRRegisterMeta = im("container", "DefinitionRegistry", "RegisterMeta")
	r.FGetComponentByName = im("container", "Factory", "GetComponentByName")
	r.FGetComponents = im("container", "Factory", "GetComponents")
	r.FRefresh = im("container", "Factory", "Refresh")
	r.FPrepare = im("container", "Factory", "PrepareComponents")
	r.CPBeforeInit = im("container", "ComponentPostProcessor", "PostProcessBeforeInitialization")
	r.CPAfterInit = im("container", "ComponentPostProcessor", "PostProcessAfterInitialization")
	r.IABeforeInst = im("container", "InstantiationAwareComponentPostProcessor", "PostProcessBeforeInstantiation")
	r.IAAfterInst = im("container", "InstantiationAwareComponentPostProcessor", "PostProcessAfterInstantiation")
	r.IAProps = im("container", "InstantiationAwareComponentPostProcessor", "PostProcessProperties")
	r.SmartEarlyRef = im("container", "SmartInstantiationAwareBeanPostProcessor", "GetEarlyBeanReference")
	r.APS = im("definition", "InitializingComponent", "AfterPropertiesSet")
	r.Init = im("definition", "InitializeComponent", "Init")
	r.RunnerRun = im("definition", "ApplicationRunner", "Run")
	r.CloserClose = im("definition", "CloserComponent", "Close")
	r.LoaderLoad = im("configure", "Loader", "LoadConfig")
	r.BinderSetConfig = im("configure", "Binder", "SetConfig")
	r.BinderGet = im("configure", "Binder", "Get")
	r.DRPPPostProcess = im("container", "DefinitionRegistryPostProcessor", "PostProcessDefinitionRegistry")
	r.CFPPPostProcess = im("container", "ComponentFactoryPostProcessor", "PostProcessComponentFactory")
	r.OrderedOrder = im("definition", "Ordered", "Order")
	if p := c.Named("component_definition", "Property"); p != nil {
		r.PropertyInject = c.DeclaredMethod(p, "Inject")
	}
	r.NewMeta = c.Func("component_definition", "NewMeta")
	r.CreateProxy = c.Func("component_definition", "CreateProxy")
	r.Sorter = c.Func("util/framework_helper", "SortOrderedComponents")
	return r
}

// Invokers lists in-scope functions (including literals) that contain an invoke of m.
func (c *Ctx) Invokers(m *types.Func) []*ssa.Function {
	var out []*ssa.Function
	if m == nil {
		return nil
	}
	for _, fn := range c.Scope {
		for _, ci := range Calls(fn) {
			if IsInvoke(ci.Common(), m) {
				out = append(out, fn)
				break
			}
		}
	}
	return out
}

// Callers lists in-scope functions with a static call (or go/defer) of target.
func (c *Ctx) Callers(target *ssa.Function) []*ssa.Function {
	var out []*ssa.Function
	for _, fn := range c.Scope {
		for _, ci := range Calls(fn) {
			if IsCallTo(ci.Common(), target) || seamAllHas(ci.Common(), target) {
				out = append(out, fn)
				break
			}
		}
	}
	return out
}

// seamAllHas: the invoke goes through an unexported in-scope interface one of whose implementations is target.
func seamAllHas(com *ssa.CallCommon, target *ssa.Function) bool {
	for _, g := range SeamAll(com) {
		if g == target || (g.Origin() != nil && g.Origin() == target) {
			return true
		}
	}
	return false
}

// MayCall: the call's static callee is fn, or it is an invoke through an internal seam that fn implements.
func MayCall(com *ssa.CallCommon, fn *ssa.Function) bool {
	return IsCallTo(com, fn) || seamAllHas(com, fn)
}

// CallSites lists all in-scope call instructions matching pred.
func (c *Ctx) CallSites(pred func(*ssa.CallCommon) bool) []ssa.CallInstruction {
	var out []ssa.CallInstruction
	for _, fn := range c.Scope {
		out = append(out, CallsMatching(fn, pred)...)
	}
	return out
}

// FuncValueUses lists in-scope instructions that use fn as a value (not as the static callee of a call).
func (c *Ctx) FuncValueUses(target *ssa.Function) []ssa.Instruction {
	var out []ssa.Instruction
	for _, fn := range c.Scope {
		for _, b := range fn.Blocks {
			for _, in := range b.Instrs {
				var ops []*ssa.Value
				ops = in.Operands(ops)
				for i, op := range ops {
					if *op == nil {
						continue
					}
					f, ok := (*op).(*ssa.Function)
					if !ok {
						continue
					}
					if o := f.Origin(); o != nil {
						f = o
					}
					if f != target {
						continue
					}
					if ci, isCall := in.(ssa.CallInstruction); isCall && i == 0 && !ci.Common().IsInvoke() && ci.Common().Value == *op {
						continue
					}
					out = append(out, in)
				}
			}
		}
	}
	return out
}

// TopLevel returns the outermost named function enclosing fn.
func TopLevel(fn *ssa.Function) *ssa.Function {
	for fn.Parent() != nil {
		fn = fn.Parent()
	}
	return fn
}

// CacheAccessors: functions invoking SingletonComponentRegistry.GetSingletonOrCreateByFactory.
func (r *Roles) CacheAccessors() []*ssa.Function { return r.c.Invokers(r.SCRGetOrCreate) }

// EarlyExposers: functions invoking SingletonComponentRegistry.AddSingletonFactory.
func (r *Roles) EarlyExposers() []*ssa.Function { return r.c.Invokers(r.SCRAddFactory) }

// Populators: functions calling (*Property).Inject.
func (r *Roles) Populators() []*ssa.Function { return r.c.Callers(r.PropertyInject) }

// Initializers: functions invoking AfterPropertiesSet or Init.
func (r *Roles) Initializers() []*ssa.Function {
	set := map[*ssa.Function]bool{}
	for _, f := range r.c.Invokers(r.APS) {
		set[f] = true
	}
	for _, f := range r.c.Invokers(r.Init) {
		set[f] = true
	}
	var out []*ssa.Function
	for f := range set {
		out = append(out, f)
	}
	sort.Slice(out, func(i, j int) bool { return out[i].String() < out[j].String() })
	return out
}

// CreatorClosure returns the function literal handed (as SingletonFactory) to GetSingletonOrCreateByFactory
// in the accessor, found by provenance of the invoke's factory argument.
func (r *Roles) CreatorClosure(accessor *ssa.Function) *ssa.Function {
	for _, ci := range Calls(accessor) {
		if !IsInvoke(ci.Common(), r.SCRGetOrCreate) || len(ci.Common().Args) < 2 {
			continue
		}
		return ClosureOf(ci.Common().Args[1])
	}
	return nil
}

// ClosureOf peels conversions/boxing off a value down to a function literal or named function.
func ClosureOf(v ssa.Value) *ssa.Function {
	for i := 0; i < 8 && v != nil; i++ {
		switch x := v.(type) {
		case *ssa.MakeInterface:
			// a callable object: a (pointer to a) named struct boxed into a single-method interface stands for
			// that method (the object-shaped sibling of a function literal converted to a func type)
			if it, ok := x.Type().Underlying().(*types.Interface); ok && it.NumMethods() == 1 && x.Parent() != nil {
				t := x.X.Type()
				if pt, isPtr := t.Underlying().(*types.Pointer); isPtr {
					t = pt.Elem()
				}
				if _, isStruct := t.Underlying().(*types.Struct); isStruct && NamedOf(t) != nil {
					m := it.Method(0)
					if fn := x.Parent().Prog.LookupMethod(x.X.Type(), m.Pkg(), m.Name()); fn != nil && fn.Blocks != nil {
						return fn
					}
				}
			}
			v = x.X
		case *ssa.ChangeType:
			v = x.X
		case *ssa.MakeClosure:
			return x.Fn.(*ssa.Function)
		case *ssa.Function:
			return x
		case *ssa.Call:
			// a converting helper: a one-block function that returns one of its parameters, converted or boxed
			cal := x.Common().StaticCallee()
			if cal == nil || len(cal.Blocks) != 1 || x.Common().IsInvoke() {
				return nil
			}
			ret, ok := cal.Blocks[0].Instrs[len(cal.Blocks[0].Instrs)-1].(*ssa.Return)
			if !ok || len(ret.Results) != 1 {
				return nil
			}
			r := ret.Results[0]
			for k := 0; k < 4; k++ {
				switch y := r.(type) {
				case *ssa.ChangeType:
					r = y.X
				case *ssa.MakeInterface:
					r = y.X
				case *ssa.ChangeInterface:
					r = y.X
				}
			}
			p, isParam := r.(*ssa.Parameter)
			if !isParam {
				return nil
			}
			v = nil
			for idx, q := range cal.Params {
				if q == p && idx < len(x.Common().Args) {
					v = x.Common().Args[idx]
				}
			}
		default:
			return nil
		}
	}
	return nil
}

// StaticCalleesInPkg returns the transitive in-package static callees of fn (fn included), not entering `cut`.
func (c *Ctx) StaticCalleesInPkg(fn *ssa.Function, cut map[*ssa.Function]bool) []*ssa.Function {
	pkg := PkgOf(fn)
	seen := map[*ssa.Function]bool{}
	var order []*ssa.Function
	var visit func(f *ssa.Function)
	visit = func(f *ssa.Function) {
		if seen[f] || cut[f] || f.Blocks == nil || PkgOf(f) != pkg {
			return
		}
		seen[f] = true
		order = append(order, f)
		for _, ci := range Calls(f) {
			if cal := c.ResolvedCallee(ci.Common()); cal != nil {
				visit(cal)
			}
		}
	}
	visit(fn)
	return order
}

// InternalImpl resolves an invoke through an unexported in-scope interface (an internal seam, not a contract of the
// library) that has exactly one implementing type in scope to that type's method; nil otherwise.
func (c *Ctx) InternalImpl(com *ssa.CallCommon) *ssa.Function {
	return Seam(com)
}

// ResolvedCallee: the static callee, or the unique implementation behind an internal seam.
func (c *Ctx) ResolvedCallee(com *ssa.CallCommon) *ssa.Function {
	if cal := com.StaticCallee(); cal != nil {
		return cal
	}
	return c.InternalImpl(com)
}
