package core

import (
	"golang.org/x/tools/go/ssa"
)

// ErrClass is how the error result of one call is treated (C09.E1 idiom table).
type ErrClass string

const (
	ErrReturned ErrClass = "returned"  // flows into the function's own error result (possibly wrapped)
	ErrTested   ErrClass = "tested"    // nil-tested and every return reachable from the non-nil edge carries a non-nil error
	ErrSwallow  ErrClass = "swallowed" // nil-tested but a nil-error return / fallthrough is reachable from the non-nil edge
	ErrDropped  ErrClass = "dropped"   // never looked at
	ErrOther    ErrClass = "other"     // stored, passed on, boxed ...
)

// ErrUse describes the treatment of one call's error.
type ErrUse struct {
	Class  ErrClass
	Detail string
	// for ErrSwallow: the success return or fallthrough block reached from the non-nil edge
	Escape ssa.Instruction
	Tests  []NilTest
}

// mustFlowToReturn: on every path from its definition to a function exit, the (untested) error value v is what the
// function returns as its error (possibly wrapped).  Carriers of v are v itself, pkg/errors wrappers of a carrier,
// and phis all of whose incoming edges *that can be reached from v's definition* are carriers.
func mustFlowToReturn(v ssa.Value) bool {
	def, ok := v.(ssa.Instruction)
	if !ok {
		return false
	}
	fn := def.Parent()
	from := ReachableFrom(def.Block(), nil)
	carriers := map[ssa.Value]bool{v: true}
	for changed := true; changed; {
		changed = false
		for _, b := range fn.Blocks {
			for _, in := range b.Instrs {
				val, isVal := in.(ssa.Value)
				if !isVal || carriers[val] {
					continue
				}
				switch x := in.(type) {
				case *ssa.Call:
					if inner, isWrap := IsErrWrap(x); isWrap && carriers[inner] {
						carriers[x] = true
						changed = true
					}
				case *ssa.Phi:
					all, any := true, false
					for i, e := range x.Edges {
						pred := b.Preds[i]
						if !from[pred] {
							continue // this way in cannot come after v's definition
						}
						any = true
						if !carriers[e] {
							all = false
						}
					}
					if all && any {
						carriers[x] = true
						changed = true
					}
				}
			}
		}
	}
	n := 0
	for b := range from {
		if len(b.Instrs) == 0 {
			continue
		}
		ret, isRet := b.Instrs[len(b.Instrs)-1].(*ssa.Return)
		if !isRet {
			continue
		}
		if b == def.Block() && instrIndex(ret) < instrIndex(def) {
			continue
		}
		n++
		if len(ret.Results) == 0 || !carriers[ret.Results[len(ret.Results)-1]] {
			return false
		}
	}
	return n > 0
}

// ClassifyErr classifies the treatment of the error returned by call.
func ClassifyErr(call *ssa.Call) ErrUse {
	ev := ErrValue(call)
	if ev == nil {
		return ErrUse{Class: ErrDropped, Detail: "error result is never extracted"}
	}
	refs := ev.Referrers()
	n := 0
	for _, r := range *refs {
		if _, ok := r.(*ssa.DebugRef); !ok {
			n++
		}
	}
	if n == 0 {
		return ErrUse{Class: ErrDropped, Detail: "error result is unused"}
	}
	tests := NilTests(ev)
	if len(tests) > 0 {
		for _, t := range tests {
			if esc := escapeFromNonNil(t, call.Parent(), ev); esc != nil {
				return ErrUse{Class: ErrSwallow, Detail: "a nil-error return or the end of the function is reachable from the non-nil edge", Escape: esc, Tests: tests}
			}
		}
		return ErrUse{Class: ErrTested, Tests: tests}
	}
	if mustFlowToReturn(ev) {
		return ErrUse{Class: ErrReturned}
	}
	return ErrUse{Class: ErrOther, Detail: "error is neither nil-tested nor returned on every path from the call (it can be overwritten or dropped)"}
}

// escapeFromNonNil: a return that is not provably an error return, reachable from the non-nil edge of t.
func escapeFromNonNil(t NilTest, fn *ssa.Function, ev ssa.Value) ssa.Instruction {
	hasErr := ReturnsError(fn.Signature)
	reach := ReachableFrom(t.NonNil, nil)
	for b := range reach {
		if len(b.Instrs) == 0 {
			continue
		}
		last := b.Instrs[len(b.Instrs)-1]
		if ret, ok := last.(*ssa.Return); ok {
			if !hasErr {
				return ret
			}
			if ClassifyReturn(ret) != RetError && !nonNilViaEdge(ret.Results[len(ret.Results)-1], ret, t, ev, reach) {
				return ret
			}
		}
	}
	return nil
}

// NilOnlyIf: fn returns a nil error only on paths where `call` returned a nil error.
func NilOnlyIf(fn *ssa.Function, call *ssa.Call) (bool, *ssa.Return) {
	ev := ErrValue(call)
	for _, ret := range Returns(fn) {
		switch ClassifyReturn(ret) {
		case RetError:
		case RetSuccess:
			if !OnNilErrEdge(call, ret) {
				return false, ret
			}
		case RetMaybe:
			e := ret.Results[len(ret.Results)-1]
			ok := false
			for i := 0; i < 4; i++ {
				if e == ev {
					ok = true
					break
				}
				in, isWrap := IsErrWrap(e)
				if !isWrap {
					break
				}
				e = in
			}
			if !ok && !OnNilErrEdge(call, ret) {
				return false, ret
			}
		}
	}
	return true, nil
}

// IsErrCtor0: the call itself constructs an error (errors.New / Errorf ...): not a fallible operation.
func IsErrCtor0(com *ssa.CallCommon) bool {
	cal := Callee(com)
	if cal == nil {
		return false
	}
	switch cal.String() {
	case "github.com/pkg/errors.Errorf", "github.com/pkg/errors.New", "errors.New", "fmt.Errorf":
		return true
	}
	return false
}

// nonNilViaEdge: the error operand e of ret is non-nil on every execution that took the non-nil edge of test t of
// value ev: at a merge only the ways in that such an execution can use count, and on the tested edge itself the tested
// value (or a wrapper of it) is non-nil.
func nonNilViaEdge(e ssa.Value, ret *ssa.Return, t NilTest, ev ssa.Value, reach map[*ssa.BasicBlock]bool) bool {
	phi, ok := e.(*ssa.Phi)
	if !ok {
		return NonNilAtFrom(e, ret, reach)
	}
	counted := 0
	for i, op := range phi.Edges {
		pred := phi.Block().Preds[i]
		viaEdge := pred == t.If.Block() && phi.Block() == t.NonNil
		if !viaEdge && !reach[pred] {
			continue
		}
		counted++
		if viaEdge {
			x := op
			carrier := false
			for k := 0; k < 4 && x != nil; k++ {
				if x == ev {
					carrier = true
					break
				}
				in, isWrap := IsErrWrap(x)
				if !isWrap {
					break
				}
				x = in
			}
			if carrier {
				continue
			}
		}
		if len(pred.Instrs) == 0 || !NonNilAtFrom(op, pred.Instrs[len(pred.Instrs)-1], reach) {
			return false
		}
	}
	return counted > 0
}
