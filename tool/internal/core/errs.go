package core

import (
	"fmt"
	"go/constant"
	"go/token"

	"golang.org/x/tools/go/ssa"
)

// ErrClass is how the error result of one call is treated (C09.E1 idiom table).
type ErrClass string

const (
	ErrReturned ErrClass = "returned"  // flows into the function's own error result (possibly wrapped)
	ErrTested   ErrClass = "tested"    // nil-tested and every return reachable from the non-nil edge carries a non-nil error
	ErrSwallow  ErrClass = "swallowed" // nil-tested but a nil-error return / fallthrough is reachable from the non-nil edge
	ErrDropped  ErrClass = "dropped"   // never looked at
	ErrOther    ErrClass = "other"     // stored, passed on, boxed ...
)

// ErrUse describes the treatment of one call's error.
type ErrUse struct {
	Class  ErrClass
	Detail string
	// for ErrSwallow: the success return or fallthrough block reached from the non-nil edge
	Escape ssa.Instruction
	Tests  []NilTest
}

// mustFlowToReturn: on every path from its definition to a function exit, the (untested) error value v is what the
// function returns as its error (possibly wrapped).  Carriers of v are v itself, pkg/errors wrappers of a carrier,
// and phis all of whose incoming edges *that can be reached from v's definition* are carriers.
func mustFlowToReturn(v ssa.Value) bool {
	def, ok := v.(ssa.Instruction)
	if !ok {
		return false
	}
	fn := def.Parent()
	if InLoop(def.Block()) {
		// an untested error produced inside a loop: the next iteration's result replaces it before any return is
		// reached (a failure followed by a success would be lost)
		return false
	}
	from := ReachableFrom(def.Block(), nil)
	carriers := map[ssa.Value]bool{v: true}
	for changed := true; changed; {
		changed = false
		for _, b := range fn.Blocks {
			for _, in := range b.Instrs {
				val, isVal := in.(ssa.Value)
				if !isVal || carriers[val] {
					continue
				}
				switch x := in.(type) {
				case *ssa.Call:
					if inner, isWrap := IsErrWrap(x); isWrap && carriers[inner] {
						carriers[x] = true
						changed = true
					}
				case *ssa.Phi:
					all, any := true, false
					for i, e := range x.Edges {
						pred := b.Preds[i]
						if !from[pred] {
							continue // this way in cannot come after v's definition
						}
						any = true
						if !carriers[e] {
							all = false
						}
					}
					if all && any {
						carriers[x] = true
						changed = true
					}
				}
			}
		}
	}
	n := 0
	for b := range from {
		if len(b.Instrs) == 0 {
			continue
		}
		ret, isRet := b.Instrs[len(b.Instrs)-1].(*ssa.Return)
		if !isRet {
			continue
		}
		if b == def.Block() && instrIndex(ret) < instrIndex(def) {
			continue
		}
		n++
		if len(ret.Results) == 0 || !carriers[ret.Results[len(ret.Results)-1]] {
			return false
		}
	}
	return n > 0
}

// ClassifyErr classifies the treatment of the error returned by call.
func ClassifyErr(call *ssa.Call) ErrUse {
	ev := ErrValue(call)
	if ev == nil {
		return ErrUse{Class: ErrDropped, Detail: "error result is never extracted"}
	}
	refs := ev.Referrers()
	n := 0
	for _, r := range *refs {
		if _, ok := r.(*ssa.DebugRef); !ok {
			n++
		}
	}
	if n == 0 {
		return ErrUse{Class: ErrDropped, Detail: "error result is unused"}
	}
	tests := NilTests(ev)
	if len(tests) > 0 {
		for _, t := range tests {
			if esc := escapeFromNonNil(t, call.Parent(), ev); esc != nil {
				return ErrUse{Class: ErrSwallow, Detail: "a nil-error return or the end of the function is reachable from the non-nil edge", Escape: esc, Tests: tests}
			}
		}
		return ErrUse{Class: ErrTested, Tests: tests}
	}
	if mustFlowToReturn(ev) {
		return ErrUse{Class: ErrReturned}
	}
	// the error travels through a result variable in memory (named results of a function with deferred calls,
	// single-exit forms): walk the paths after the call assuming it failed
	if ReturnsError(call.Parent().Signature) {
		okAll, n := true, 0
		reach := ReachableFrom(call.Block(), nil)
		exhausted := WalkReturnsAfter(call, []ssa.Value{ev}, func(ret *ssa.Return, nilness int, resolved ssa.Value) bool {
			n++
			if nilness != 1 && ClassifyReturn(ret) != RetError && !(resolved != nil && !IsNilConst(resolved) && NonNilAtFrom(resolved, ret, reach)) {
				okAll = false
			}
			return okAll
		})
		if okAll && n > 0 && !exhausted {
			return ErrUse{Class: ErrTested, Detail: "through a result variable: every return on the paths after a failing call carries a non-nil error"}
		}
	}
	return ErrUse{Class: ErrOther, Detail: "error is neither nil-tested nor returned on every path from the call (it can be overwritten or dropped)"}
}

// escapeFromNonNil: a return that is not provably an error return, reachable from the non-nil edge of t.
func escapeFromNonNil(t NilTest, fn *ssa.Function, ev ssa.Value) ssa.Instruction {
	hasErr := ReturnsError(fn.Signature)
	reach := ReachableFrom(t.NonNil, nil)
	for b := range reach {
		if len(b.Instrs) == 0 {
			continue
		}
		last := b.Instrs[len(b.Instrs)-1]
		if ret, ok := last.(*ssa.Return); ok {
			if !hasErr {
				return ret
			}
			if ClassifyReturn(ret) != RetError && !nonNilViaEdge(ret.Results[len(ret.Results)-1], ret, t, ev, reach) {
				// a candidate: confirm it path by path (single-exit forms merge the two edges before returning)
				if esc, exhausted := pathEscape(t, fn, ev); esc != nil || exhausted {
					return ret
				}
				return nil
			}
		}
	}
	return nil
}

// NilOnlyIf: fn returns a nil error only on paths where `call` returned a nil error.
func NilOnlyIf(fn *ssa.Function, call *ssa.Call) (bool, *ssa.Return) {
	ev := ErrValue(call)
	for _, ret := range Returns(fn) {
		switch ClassifyReturn(ret) {
		case RetError:
		case RetSuccess:
			if !OnNilErrEdge(call, ret) {
				return false, ret
			}
		case RetMaybe:
			e := ret.Results[len(ret.Results)-1]
			ok := false
			for i := 0; i < 4; i++ {
				if e == ev {
					ok = true
					break
				}
				in, isWrap := IsErrWrap(e)
				if !isWrap {
					break
				}
				e = in
			}
			if !ok && !OnNilErrEdge(call, ret) {
				return false, ret
			}
		}
	}
	return true, nil
}

// IsErrCtor0: the call itself constructs an error (errors.New / Errorf ...): not a fallible operation.
func IsErrCtor0(com *ssa.CallCommon) bool {
	cal := Callee(com)
	if cal == nil {
		return false
	}
	switch cal.String() {
	case "github.com/pkg/errors.Errorf", "github.com/pkg/errors.New", "errors.New", "fmt.Errorf":
		return true
	}
	return false
}

// nonNilViaEdge: the error operand e of ret is non-nil on every execution that took the non-nil edge of test t of
// value ev: at a merge only the ways in that such an execution can use count, and on the tested edge itself the tested
// value (or a wrapper of it) is non-nil.
func nonNilViaEdge(e ssa.Value, ret *ssa.Return, t NilTest, ev ssa.Value, reach map[*ssa.BasicBlock]bool) bool {
	phi, ok := e.(*ssa.Phi)
	if !ok {
		return NonNilAtFrom(e, ret, reach)
	}
	counted := 0
	for i, op := range phi.Edges {
		pred := phi.Block().Preds[i]
		viaEdge := pred == t.If.Block() && phi.Block() == t.NonNil
		if !viaEdge && !reach[pred] {
			continue
		}
		counted++
		if viaEdge {
			x := op
			carrier := false
			for k := 0; k < 4 && x != nil; k++ {
				if x == ev {
					carrier = true
					break
				}
				in, isWrap := IsErrWrap(x)
				if !isWrap {
					break
				}
				x = in
			}
			if carrier {
				continue
			}
		}
		if len(pred.Instrs) == 0 || !NonNilAtFrom(op, pred.Instrs[len(pred.Instrs)-1], reach) {
			return false
		}
	}
	return counted > 0
}

// pathEscape is the path-sensitive refinement of escapeFromNonNil: it walks every path that starts on the non-nil edge
// of test t (see WalkReturns) and returns a return instruction some such path reaches with an error operand that is
// not provably non-nil, or nil if there is none.
func pathEscape(t NilTest, fn *ssa.Function, ev ssa.Value) (esc ssa.Instruction, exhausted bool) {
	if !ReturnsError(fn.Signature) {
		for b := range ReachableFrom(t.NonNil, nil) {
			if ret, ok := b.Instrs[len(b.Instrs)-1].(*ssa.Return); ok {
				return ret, false
			}
		}
		return nil, false
	}
	reach := ReachableFrom(t.NonNil, nil)
	exhausted = WalkReturns(t.If, t.NonNil == t.If.Block().Succs[0], []ssa.Value{ev}, func(ret *ssa.Return, nilness int, resolved ssa.Value) bool {
		if nilness == 1 || ClassifyReturn(ret) == RetError {
			return true
		}
		if !IsNilConst(resolved) && NonNilAtFrom(resolved, ret, reach) {
			return true
		}
		esc = ret
		return false
	})
	return esc, exhausted
}

// WalkReturns walks every path that leaves the If `from` on its true (or false) edge, resolving phis by the way each
// path came in and pruning branches whose nil tests are already decided on that path (single-exit forms:
// `switch { case err != nil: ... }; return v, err`).  For each return reached it calls visit with the nilness of the
// function's last result on that path (+1 provably non-nil, -1 nil, 0 unknown) and the value it resolved to; visit
// returns false to stop.  Taking a back edge forgets everything learnt (values are redefined per iteration).  The
// values in nonNil are known to be non-nil from the start.  It reports whether the step budget was exhausted.
func WalkReturns(from *ssa.If, onTrue bool, nonNil []ssa.Value, visit func(ret *ssa.Return, nilness int, resolved ssa.Value) bool) (exhausted bool) {
	return walkReturns(from, onTrue, nil, nil, nonNil, nil, visit)
}

// WalkReturnsAfter is WalkReturns for the paths that continue after instruction `at` (typically a call whose error
// result is assumed non-nil): the rest of its block is executed first.
func WalkReturnsAfter(at ssa.Instruction, nonNil []ssa.Value, visit func(ret *ssa.Return, nilness int, resolved ssa.Value) bool) (exhausted bool) {
	return walkReturns(nil, false, at, nil, nonNil, nil, visit)
}

// WalkReturnsWithin is WalkReturnsAfter that does not continue into the blocks of stop (e.g. a loop header: the
// paths that go round are not followed).
func WalkReturnsWithin(start *ssa.BasicBlock, stop map[*ssa.BasicBlock]bool, visit func(ret *ssa.Return, nilness int, resolved ssa.Value) bool) (exhausted bool) {
	return walkReturns(nil, false, nil, start, nil, stop, visit)
}

func walkReturns(from *ssa.If, onTrue bool, after ssa.Instruction, startBlock *ssa.BasicBlock, nonNil []ssa.Value, stop map[*ssa.BasicBlock]bool, visit func(ret *ssa.Return, nilness int, resolved ssa.Value) bool) (exhausted bool) {
	var fn *ssa.Function
	switch {
	case from != nil:
		fn = from.Parent()
	case after != nil:
		fn = after.Parent()
	default:
		fn = startBlock.Parent()
	}
	hasErr := ReturnsError(fn.Signature)
	type state struct {
		env    map[*ssa.Phi]ssa.Value
		nonNil map[ssa.Value]bool
		isNil  map[ssa.Value]bool
		cells  map[*ssa.Alloc]ssa.Value // local variables that live in memory (named results of a function with defers)
		loads  map[ssa.Value]ssa.Value  // what a load of such a variable saw on this path
	}
	newState := func() *state {
		return &state{env: map[*ssa.Phi]ssa.Value{}, nonNil: map[ssa.Value]bool{}, isNil: map[ssa.Value]bool{}, cells: map[*ssa.Alloc]ssa.Value{}, loads: map[ssa.Value]ssa.Value{}}
	}
	// a local whose address does not escape into a closure or call is written only by the stores seen on the path
	private := map[*ssa.Alloc]bool{}
	for _, b := range fn.Blocks {
		for _, in := range b.Instrs {
			al, ok := in.(*ssa.Alloc)
			if !ok {
				continue
			}
			okP := true
			for _, rf := range *al.Referrers() {
				switch x := rf.(type) {
				case *ssa.Store:
					if x.Addr != ssa.Value(al) {
						okP = false
					}
				case *ssa.UnOp, *ssa.DebugRef:
				case *ssa.MakeClosure:
					// captured by a (deferred) literal: fine if the literal only reads it, or only ever replaces a
					// non-nil error by another non-nil one (wraps it) - non-nilness survives either way
					lit, _ := x.Fn.(*ssa.Function)
					if lit == nil || !capturedKeepsNonNil(lit, x, al) {
						okP = false
					}
				default:
					okP = false
				}
			}
			private[al] = okP
		}
	}
	clone := func(s *state) *state {
		n := newState()
		for k, v := range s.cells {
			n.cells[k] = v
		}
		for k, v := range s.loads {
			n.loads[k] = v
		}
		for k, v := range s.env {
			n.env[k] = v
		}
		for k := range s.nonNil {
			n.nonNil[k] = true
		}
		for k := range s.isNil {
			n.isNil[k] = true
		}
		return n
	}
	resolve := func(s *state, v ssa.Value) ssa.Value {
		for i := 0; i < 16; i++ {
			if l, ok := s.loads[v]; ok {
				v = l
				continue
			}
			phi, ok := v.(*ssa.Phi)
			if !ok {
				return v
			}
			r, has := s.env[phi]
			if !has {
				return v
			}
			v = r
		}
		return v
	}
	// nilness of a resolved value on this path: +1 non-nil, -1 nil, 0 unknown
	var nilness func(s *state, v ssa.Value, d int) int
	nilness = func(s *state, v ssa.Value, d int) int {
		v = resolve(s, v)
		switch {
		case IsNilConst(v):
			return -1
		case s.nonNil[v]:
			return 1
		case s.isNil[v]:
			return -1
		case IsErrCtor(v):
			return 1
		}
		if _, ok := v.(*ssa.MakeInterface); ok {
			return 1
		}
		if in, ok := IsErrWrap(v); ok && d < 4 {
			return nilness(s, in, d+1) // pkg/errors wrappers return nil for a nil cause
		}
		return 0
	}
	// cond: +1 true, -1 false, 0 unknown; learn reports what the two edges teach
	var cond func(s *state, v ssa.Value, d int) int
	cond = func(s *state, v ssa.Value, d int) int {
		v = resolve(s, v)
		if d > 6 {
			return 0
		}
		switch x := v.(type) {
		case *ssa.Const:
			if x.Value != nil && x.Value.Kind() == constant.Bool {
				if constant.BoolVal(x.Value) {
					return 1
				}
				return -1
			}
		case *ssa.UnOp:
			if x.Op == token.NOT {
				return -cond(s, x.X, d+1)
			}
		case *ssa.BinOp:
			if (x.Op == token.EQL || x.Op == token.NEQ) && (IsNilConst(x.X) || IsNilConst(x.Y)) {
				o := x.X
				if IsNilConst(o) {
					o = x.Y
				}
				n := nilness(s, o, 0)
				if x.Op == token.EQL {
					return -n
				}
				return n
			}
		}
		return 0
	}
	learn := func(s *state, v ssa.Value, truth bool) {
		for i := 0; i < 4; i++ {
			v = resolve(s, v)
			if u, ok := v.(*ssa.UnOp); ok && u.Op == token.NOT {
				v, truth = u.X, !truth
				continue
			}
			break
		}
		if x, ok := v.(*ssa.BinOp); ok && (x.Op == token.EQL || x.Op == token.NEQ) && (IsNilConst(x.X) || IsNilConst(x.Y)) {
			o := x.X
			if IsNilConst(o) {
				o = x.Y
			}
			o = resolve(s, o)
			if (x.Op == token.NEQ) == truth {
				s.nonNil[o] = true
			} else {
				s.isNil[o] = true
			}
		}
	}
	steps := 0
	seen := map[string]bool{}
	startAfter := after
	var walk func(b, pred *ssa.BasicBlock, s *state, onPath map[*ssa.BasicBlock]bool) ssa.Instruction
	walk = func(b, pred *ssa.BasicBlock, s *state, onPath map[*ssa.BasicBlock]bool) ssa.Instruction {
		skipUntil := startAfter // only the very first block starts in its middle
		startAfter = nil
		if skipUntil == nil && stop[b] && !(startBlock == b && steps == 0) {
			return nil
		}
		steps++
		if steps > 20000 {
			exhausted = true
			return nil
		}
		if onPath[b] {
			// next iteration: nothing learnt so far is valid any more
			s = newState()
			pi := -1
			if pred != nil {
				pi = pred.Index
			}
			key := fmt.Sprintf("loop:%d<-%d", b.Index, pi)
			if seen[key] {
				return nil
			}
			seen[key] = true
			onPath = map[*ssa.BasicBlock]bool{}
		} else if skipUntil == nil {
			// phis are evaluated simultaneously on the way in
			upd := map[*ssa.Phi]ssa.Value{}
			for _, in := range b.Instrs {
				phi, ok := in.(*ssa.Phi)
				if !ok {
					break
				}
				for i, p := range b.Preds {
					if p == pred {
						upd[phi] = resolve(s, phi.Edges[i])
					}
				}
			}
			for k, v := range upd {
				s.env[k] = v
			}
		}
		onPath[b] = true
		defer delete(onPath, b)
		for _, in := range b.Instrs {
			if skipUntil != nil {
				if in == skipUntil {
					skipUntil = nil
				}
				continue
			}
			switch x := in.(type) {
			case *ssa.Store:
				if al, ok := x.Addr.(*ssa.Alloc); ok && private[al] {
					s.cells[al] = resolve(s, x.Val)
				}
			case *ssa.UnOp:
				if al, ok := x.X.(*ssa.Alloc); ok && x.Op == token.MUL && private[al] {
					if v, has := s.cells[al]; has {
						s.loads[x] = v
					}
				}
			}
		}
		last := b.Instrs[len(b.Instrs)-1]
		switch x := last.(type) {
		case *ssa.Return:
			if !hasErr || len(x.Results) == 0 {
				if !visit(x, 0, nil) {
					return x
				}
				return nil
			}
			e := x.Results[len(x.Results)-1]
			if !visit(x, nilness(s, e, 0), resolve(s, e)) {
				return x
			}
			return nil
		case *ssa.If:
			c := cond(s, x.Cond, 0)
			for i, succ := range b.Succs {
				if c == 1 && i == 1 || c == -1 && i == 0 {
					continue
				}
				s2 := clone(s)
				if c == 0 {
					learn(s2, x.Cond, i == 0)
				}
				if r := walk(succ, b, s2, onPath); r != nil {
					return r
				}
			}
			return nil
		default:
			for _, succ := range b.Succs {
				if r := walk(succ, b, clone(s), onPath); r != nil {
					return r
				}
			}
		}
		return nil
	}
	s0 := newState()
	for _, v := range nonNil {
		s0.nonNil[v] = true
	}
	if from == nil && after == nil {
		walk(startBlock, nil, s0, map[*ssa.BasicBlock]bool{})
		return exhausted
	}
	if from == nil {
		walk(after.Block(), nil, s0, map[*ssa.BasicBlock]bool{})
		return exhausted
	}
	// whatever the condition tests is decided on this edge
	learn(s0, from.Cond, onTrue)
	start := from.Block().Succs[1]
	if onTrue {
		start = from.Block().Succs[0]
	}
	walk(start, from.Block(), s0, map[*ssa.BasicBlock]bool{})
	return exhausted
}

// capturedKeepsNonNil: the literal lit, which captures the variable al through closure mc, never turns a non-nil
// error held in it into nil: it does not store to it at all, or stores only a wrapper of what it holds / a fresh error.
func capturedKeepsNonNil(lit *ssa.Function, mc *ssa.MakeClosure, al *ssa.Alloc) bool {
	for i, b := range mc.Bindings {
		if b != ssa.Value(al) || i >= len(lit.FreeVars) {
			continue
		}
		fv := lit.FreeVars[i]
		for _, rf := range *fv.Referrers() {
			switch x := rf.(type) {
			case *ssa.UnOp, *ssa.DebugRef:
			case *ssa.Store:
				if x.Addr != ssa.Value(fv) {
					return false
				}
				if IsErrCtor(x.Val) {
					continue
				}
				in, isWrap := IsErrWrap(x.Val)
				ld, isLoad := in.(*ssa.UnOp)
				if !isWrap || !isLoad || ld.X != ssa.Value(fv) {
					return false
				}
				// the wrapper keeps nil nil and non-nil non-nil
			default:
				return false
			}
		}
	}
	return true
}
