package core

import (
	"golang.org/x/tools/go/ssa"
)

// ErrClass is how the error result of one call is treated (C09.E1 idiom table).
type ErrClass string

const (
	ErrReturned ErrClass = "returned"  // flows into the function's own error result (possibly wrapped)
	ErrTested   ErrClass = "tested"    // nil-tested and every return reachable from the non-nil edge carries a non-nil error
	ErrSwallow  ErrClass = "swallowed" // nil-tested but a nil-error return / fallthrough is reachable from the non-nil edge
	ErrDropped  ErrClass = "dropped"   // never looked at
	ErrOther    ErrClass = "other"     // stored, passed on, boxed ...
)

// ErrUse describes the treatment of one call's error.
type ErrUse struct {
	Class  ErrClass
	Detail string
	// for ErrSwallow: the success return or fallthrough block reached from the non-nil edge
	Escape ssa.Instruction
	Tests  []NilTest
}

// flowsToReturn: v reaches a Return's error operand through wrappers / phis only.
func flowsToReturn(v ssa.Value, depth int, seen map[ssa.Value]bool) bool {
	if depth > 6 || v == nil || v.Referrers() == nil || seen[v] {
		return false
	}
	seen[v] = true
	for _, r := range *v.Referrers() {
		switch x := r.(type) {
		case *ssa.Return:
			if len(x.Results) > 0 && x.Results[len(x.Results)-1] == v {
				return true
			}
		case *ssa.Phi:
			if flowsToReturn(x, depth+1, seen) {
				return true
			}
		case *ssa.Call:
			if in, ok := IsErrWrap(x); ok && in == v && flowsToReturn(x, depth+1, seen) {
				return true
			}
		}
	}
	return false
}

// ClassifyErr classifies the treatment of the error returned by call.
func ClassifyErr(call *ssa.Call) ErrUse {
	ev := ErrValue(call)
	if ev == nil {
		return ErrUse{Class: ErrDropped, Detail: "error result is never extracted"}
	}
	refs := ev.Referrers()
	n := 0
	for _, r := range *refs {
		if _, ok := r.(*ssa.DebugRef); !ok {
			n++
		}
	}
	if n == 0 {
		return ErrUse{Class: ErrDropped, Detail: "error result is unused"}
	}
	tests := NilTests(ev)
	if len(tests) > 0 {
		for _, t := range tests {
			if esc := escapeFromNonNil(t, call.Parent()); esc != nil {
				return ErrUse{Class: ErrSwallow, Detail: "a nil-error return or the end of the function is reachable from the non-nil edge", Escape: esc, Tests: tests}
			}
		}
		return ErrUse{Class: ErrTested, Tests: tests}
	}
	if flowsToReturn(ev, 0, map[ssa.Value]bool{}) {
		return ErrUse{Class: ErrReturned}
	}
	return ErrUse{Class: ErrOther, Detail: "error is stored or passed on without a nil test"}
}

// escapeFromNonNil: a return that is not provably an error return, reachable from the non-nil edge of t.
func escapeFromNonNil(t NilTest, fn *ssa.Function) ssa.Instruction {
	hasErr := ReturnsError(fn.Signature)
	for b := range ReachableFrom(t.NonNil, nil) {
		if len(b.Instrs) == 0 {
			continue
		}
		last := b.Instrs[len(b.Instrs)-1]
		if ret, ok := last.(*ssa.Return); ok {
			if !hasErr {
				return ret
			}
			if ClassifyReturn(ret) != RetError {
				return ret
			}
		}
	}
	return nil
}

// NilOnlyIf: fn returns a nil error only on paths where `call` returned a nil error.
func NilOnlyIf(fn *ssa.Function, call *ssa.Call) (bool, *ssa.Return) {
	ev := ErrValue(call)
	for _, ret := range Returns(fn) {
		switch ClassifyReturn(ret) {
		case RetError:
		case RetSuccess:
			if !OnNilErrEdge(call, ret) {
				return false, ret
			}
		case RetMaybe:
			e := ret.Results[len(ret.Results)-1]
			ok := false
			for i := 0; i < 4; i++ {
				if e == ev {
					ok = true
					break
				}
				in, isWrap := IsErrWrap(e)
				if !isWrap {
					break
				}
				e = in
			}
			if !ok && !OnNilErrEdge(call, ret) {
				return false, ret
			}
		}
	}
	return true, nil
}

// IsErrCtor0: the call itself constructs an error (errors.New / Errorf ...): not a fallible operation.
func IsErrCtor0(com *ssa.CallCommon) bool {
	cal := Callee(com)
	if cal == nil {
		return false
	}
	switch cal.String() {
	case "github.com/pkg/errors.Errorf", "github.com/pkg/errors.New", "errors.New", "fmt.Errorf":
		return true
	}
	return false
}
