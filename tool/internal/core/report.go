package core

import (
	"encoding/json"
	"fmt"
	"os"
	"path/filepath"
	"sort"
	"strings"
	"time"
)

type Verdict string

const (
	Held      Verdict = "held"
	Violated  Verdict = "violated"
	Undecided Verdict = "undecided"
)

// Obligation is one decided instance of a rule.
type Obligation struct {
	Rule       string   `json:"rule"`      // e.g. C04.A2
	Construct  string   `json:"construct"` // role-qualified construct, never a line number
	Verdict    Verdict  `json:"verdict"`
	Pos        string   `json:"pos,omitempty"` // file:line for the reader; not part of the key
	Detail     string   `json:"detail,omitempty"`
	Witness    []string `json:"witness,omitempty"` // path / history
	Nontrivial bool     `json:"nontrivial"`        // subject contained a branch or call
	Known      string   `json:"known,omitempty"`   // matched known-finding text
}

func (o *Obligation) Key() string { return o.Rule + "|" + o.Construct }

// Report collects the obligations of one property run.
type Report struct {
	Property    string
	Tier        string
	Seed        int64
	Start       time.Time
	Obls        []*Obligation
	Analysed    map[string]int // counters: functions, call sites, paths ...
	Notes       []string
	Assumptions []string
	Explanation string
	Extra       map[string]any
	Exhaustive  bool
}

func NewReport(prop, tier string, seed int64) *Report {
	return &Report{Property: prop, Tier: tier, Seed: seed, Start: time.Now(), Analysed: map[string]int{}, Extra: map[string]any{}}
}

func (r *Report) add(rule, construct string, v Verdict, pos, detail string, nontrivial bool, witness ...string) *Obligation {
	o := &Obligation{Rule: rule, Construct: construct, Verdict: v, Pos: pos, Detail: detail, Witness: witness, Nontrivial: nontrivial}
	r.Obls = append(r.Obls, o)
	return o
}

// Hold records a discharged obligation.
func (r *Report) Hold(rule, construct, pos, detail string) *Obligation {
	return r.add(rule, construct, Held, pos, detail, true)
}

// Fail records a violated obligation.
func (r *Report) Fail(rule, construct, pos, detail string, witness ...string) *Obligation {
	return r.add(rule, construct, Violated, pos, detail, true, witness...)
}

// Undecided records an obligation whose subject could not be located or modelled; it fails the check.
func (r *Report) Undecided(rule, construct, pos, detail string) *Obligation {
	return r.add(rule, construct, Undecided, pos, detail, false)
}

// Check records held/violated by cond.
func (r *Report) Check(cond bool, rule, construct, pos, detail string) bool {
	if cond {
		r.Hold(rule, construct, pos, detail)
	} else {
		r.Fail(rule, construct, pos, detail)
	}
	return cond
}

// Floor enforces an instance floor: fewer than want instances means the subject was not found.
func (r *Report) Floor(rule, what string, got, want int) bool {
	if got < want {
		r.Undecided(rule, "floor:"+what, "", fmt.Sprintf("found %d instance(s) of %s, need at least %d: subject could not be located", got, what, want))
		return false
	}
	return true
}

// Exactly enforces an exact instance count.
func (r *Report) Exactly(rule, what string, got, want int) bool {
	if got != want {
		r.Undecided(rule, "count:"+what, "", fmt.Sprintf("found %d instance(s) of %s, expected exactly %d", got, what, want))
		return false
	}
	return true
}

func (r *Report) Count(k string, n int) { r.Analysed[k] += n }

// ---- known findings ----------------------------------------------------------------------

type Finding struct {
	Status   string `json:"status"` // known | fixed
	Property string `json:"property"`
	Key      string `json:"key"`
	What     string `json:"what"`
	Input    string `json:"input,omitempty"`
	Commit   string `json:"commit,omitempty"`
}

type FindingsFile struct {
	Findings []Finding `json:"findings"`
	Lines    []string  `json:"lines,omitempty"`
}

func LoadFindings(path string) ([]Finding, error) {
	b, err := os.ReadFile(path)
	if err != nil {
		if os.IsNotExist(err) {
			return nil, nil
		}
		return nil, err
	}
	var f FindingsFile
	if err := json.Unmarshal(b, &f); err != nil {
		return nil, err
	}
	return f.Findings, nil
}

// ---- finishing: stdout contract, evidence, replay files ----------------------------------------

// Finish prints the verdict lines, writes evidence and replay files, and returns the exit code.
func (r *Report) Finish(verifDir string, findings []Finding) int {
	known := map[string]Finding{}
	for _, f := range findings {
		if f.Status == "known" && f.Property == r.Property {
			known[f.Key] = f
		}
	}
	sort.SliceStable(r.Obls, func(i, j int) bool { return r.Obls[i].Key() < r.Obls[j].Key() })
	replayDir := filepath.Join(verifDir, "evidence", "replay")
	os.MkdirAll(replayDir, 0o755)
	// clear stale replay files of this property
	if old, _ := filepath.Glob(filepath.Join(replayDir, r.Property+"-*.json")); old != nil {
		for _, f := range old {
			os.Remove(f)
		}
	}
	violations := 0
	discharged := 0
	nontrivial := map[string]bool{}
	seenKnown := map[string]bool{}
	seenViol := map[string]bool{}
	for _, o := range r.Obls {
		if o.Nontrivial {
			nontrivial[o.Key()] = true
		}
		switch o.Verdict {
		case Held:
			discharged++
		default:
			if f, ok := known[o.Key()]; ok && o.Verdict == Violated {
				o.Known = f.What
				if !seenKnown[o.Key()] {
					seenKnown[o.Key()] = true
					fmt.Printf("KNOWN-FINDING: property=%s %s [%s]\n", r.Property, f.What, o.Key())
				}
				continue
			}
			if seenViol[o.Key()] {
				continue
			}
			seenViol[o.Key()] = true
			violations++
			path := filepath.Join(replayDir, fmt.Sprintf("%s-%d.json", r.Property, violations))
			b, _ := json.MarshalIndent(map[string]any{"property": r.Property, "obligation": o, "tier": r.Tier,
				"replay": "./check replay " + path + "   # re-evaluates rule " + o.Rule + " on the current tree"}, "", " ")
			os.WriteFile(path, b, 0o644)
			fmt.Printf("%s rule=%s construct=%q at=%s reason=%s: %s\n", strings.ToUpper(string(o.Verdict)), o.Rule, o.Construct, o.Pos, o.Verdict, o.Detail)
			for _, w := range o.Witness {
				fmt.Printf("    %s\n", w)
			}
			fmt.Printf("VIOLATION property=%s replay=%s\n", r.Property, path)
		}
	}
	// samples: a few obligations written out
	var samples []any
	step := 1
	if len(r.Obls) > 12 {
		step = len(r.Obls) / 12
	}
	for i := 0; i < len(r.Obls); i += step {
		samples = append(samples, r.Obls[i])
	}
	for _, o := range r.Obls { // always show non-held ones
		if o.Verdict != Held {
			samples = append(samples, o)
		}
	}
	if len(samples) == 0 {
		samples = append(samples, "no obligations")
	}
	// every obligation of this run, one line each: rule | construct | verdict | position
	var all []string
	for _, o := range r.Obls {
		all = append(all, o.Rule+" | "+o.Construct+" | "+string(o.Verdict)+" | "+o.Pos)
	}
	cov := map[string]any{
		"obligation_list":     all,
		"explanation":         r.Explanation,
		"obligations":         len(r.Obls),
		"discharged":          discharged,
		"evaluations":         len(r.Obls),
		"distinct_nontrivial": len(nontrivial),
		"rule":                "one evaluation per (rule, construct) obligation decided on the SSA/type-checked source of /repo; non-trivial = the subject contained at least one branch or call and was located (undecided obligations are never counted)",
		"samples":             samples,
		"analysed":            r.Analysed,
		"exhaustive":          r.Exhaustive,
		"notes":               r.Notes,
		"trusted_base":        r.Assumptions,
	}
	for k, v := range r.Extra {
		cov[k] = v
	}
	ev := map[string]any{
		"property_id": r.Property,
		"tier":        r.Tier,
		"seed":        r.Seed,
		"level":       "other",
		"coverage":    cov,
		"assumptions": r.Assumptions,
		"wall_s":      time.Since(r.Start).Seconds(),
		"violations":  violations,
	}
	b, _ := json.MarshalIndent(ev, "", " ")
	os.MkdirAll(filepath.Join(verifDir, "evidence"), 0o755)
	if err := os.WriteFile(filepath.Join(verifDir, "evidence", r.Property+".json"), b, 0o644); err != nil {
		fmt.Fprintln(os.Stderr, "cannot write evidence:", err)
		return 2
	}
	fmt.Printf("%s %s: %d obligations, %d held, %d violated/undecided (unlisted), %d known; %.2fs\n",
		r.Property, r.Tier, len(r.Obls), discharged, violations, len(seenKnown), time.Since(r.Start).Seconds())
	if violations > 0 {
		return 1
	}
	return 0
}
