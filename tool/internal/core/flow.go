package core

import (
	"go/token"
	"go/types"
	"sync"

	"golang.org/x/tools/go/ssa"
)

// ---- instruction-level dominance ---------------------------------------------------------

func instrIndex(in ssa.Instruction) int {
	for i, x := range in.Block().Instrs {
		if x == in {
			return i
		}
	}
	return -1
}

// Dominates: every path from entry to b passes a first.
func Dominates(a, b ssa.Instruction) bool {
	if a.Block() == b.Block() {
		return instrIndex(a) <= instrIndex(b)
	}
	return a.Block().Dominates(b.Block())
}

// StrictlyBefore: a dominates b and a != b.
func StrictlyBefore(a, b ssa.Instruction) bool { return a != b && Dominates(a, b) }

// EdgeDominates: every path from entry to blk passes the CFG edge from->to.
func EdgeDominates(from, to, blk *ssa.BasicBlock) bool {
	if !to.Dominates(blk) {
		return false
	}
	for _, p := range to.Preds {
		if p == from {
			continue
		}
		if !to.Dominates(p) { // another way into `to` that is not a back edge
			return false
		}
	}
	return true
}

// ---- post-dominators -----------------------------------------------------------------------

// PostDom holds immediate post-dominators with a virtual exit (index -1).
type PostDom struct {
	fn    *ssa.Function
	ipdom []int // block index -> ipdom block index, -1 = virtual exit, -2 = no path to exit
}

func (c *Ctx) PostDom(fn *ssa.Function) *PostDom {
	if p, ok := c.pdoms[fn]; ok {
		return p
	}
	p := computePostDom(fn)
	c.pdoms[fn] = p
	return p
}

func computePostDom(fn *ssa.Function) *PostDom {
	n := len(fn.Blocks)
	canExit := make([]bool, n)
	for i, b := range fn.Blocks {
		canExit[i] = len(b.Succs) == 0 || reachesExit(b)
	}
	full := make([]bool, n+1) // index n = virtual exit
	for i := range full {
		full[i] = true
	}
	sets := make([][]bool, n)
	for i := range sets {
		sets[i] = append([]bool(nil), full...)
	}
	changed := true
	for changed {
		changed = false
		for i := n - 1; i >= 0; i-- {
			b := fn.Blocks[i]
			if !canExit[i] {
				continue
			}
			var nw []bool
			if len(b.Succs) == 0 {
				nw = make([]bool, n+1)
				nw[n] = true
			} else {
				nw = append([]bool(nil), full...)
				for _, s := range b.Succs {
					if !canExit[s.Index] {
						continue
					}
					for k := range nw {
						nw[k] = nw[k] && sets[s.Index][k]
					}
				}
			}
			nw[i] = true
			for k := range nw {
				if nw[k] != sets[i][k] {
					changed = true
					break
				}
			}
			sets[i] = nw
		}
	}
	pd := &PostDom{fn: fn, ipdom: make([]int, n)}
	count := func(s []bool) int {
		c := 0
		for _, x := range s {
			if x {
				c++
			}
		}
		return c
	}
	for i := 0; i < n; i++ {
		if !canExit[i] {
			pd.ipdom[i] = -2
			continue
		}
		// ipdom = the strict postdominator with the largest pdom set
		best, bestc := -1, -1
		for k := 0; k < n; k++ {
			if k != i && sets[i][k] && canExit[k] {
				if cc := count(sets[k]); cc > bestc {
					best, bestc = k, cc
				}
			}
		}
		pd.ipdom[i] = best
	}
	return pd
}

func reachesExit(b *ssa.BasicBlock) bool {
	seen := map[*ssa.BasicBlock]bool{}
	var walk func(x *ssa.BasicBlock) bool
	walk = func(x *ssa.BasicBlock) bool {
		if seen[x] {
			return false
		}
		seen[x] = true
		if len(x.Succs) == 0 {
			return true
		}
		for _, s := range x.Succs {
			if walk(s) {
				return true
			}
		}
		return false
	}
	return walk(b)
}

// PostDominates: every path from b to the exit passes a (blocks).
func (p *PostDom) PostDominates(a, b *ssa.BasicBlock) bool {
	x := b.Index
	for steps := 0; steps <= len(p.ipdom)+1; steps++ {
		if x == a.Index {
			return true
		}
		if x < 0 {
			return false
		}
		x = p.ipdom[x]
	}
	return false
}

// InstrPostDominates: every path from b to the function exit executes a.
func (c *Ctx) InstrPostDominates(a, b ssa.Instruction) bool {
	if a.Block() == b.Block() {
		return instrIndex(a) >= instrIndex(b)
	}
	return c.PostDom(a.Parent()).PostDominates(a.Block(), b.Block())
}

// ---- control dependence ----------------------------------------------------------------------

// CondEdge is a branch taken: If and which successor (true = Succs[0]).
type CondEdge struct {
	If     *ssa.If
	Branch bool
}

// ControlDeps returns the transitive set of branch edges blk is control dependent on, ignoring
// loop-carried dependences (branches that execute after blk and reach it again only through a back edge).
func (c *Ctx) ControlDeps(blk *ssa.BasicBlock) []CondEdge {
	fn := blk.Parent()
	pd := c.PostDom(fn)
	seen := map[*ssa.BasicBlock]bool{}
	var out []CondEdge
	dedupe := map[CondEdge]bool{}
	var visit func(b *ssa.BasicBlock)
	visit = func(b *ssa.BasicBlock) {
		if seen[b] {
			return
		}
		seen[b] = true
		for _, a := range fn.Blocks {
			if len(a.Succs) != 2 {
				continue
			}
			iff, ok := a.Instrs[len(a.Instrs)-1].(*ssa.If)
			if !ok {
				continue
			}
			if a != b && pd.PostDominates(b, a) {
				continue // b always runs after a: not dependent on a's branch
			}
			if b.Dominates(a) {
				continue // a runs after b: it can influence b only through a back edge (next iteration)
			}
			for k, s := range a.Succs {
				if s == b || pd.PostDominates(b, s) {
					e := CondEdge{iff, k == 0}
					if !dedupe[e] {
						dedupe[e] = true
						out = append(out, e)
					}
					visit(a)
				}
			}
		}
	}
	visit(blk)
	return out
}

// ---- error edges ---------------------------------------------------------------------------

// ErrValue returns the SSA value carrying the error result of a call (the call itself or its Extract).
func ErrValue(call ssa.Value) ssa.Value {
	var sig *types.Signature
	switch x := call.(type) {
	case *ssa.Call:
		sig = x.Common().Signature()
	default:
		return nil
	}
	if !ReturnsError(sig) {
		return nil
	}
	n := sig.Results().Len()
	if n == 1 {
		return call
	}
	for _, r := range *call.Referrers() {
		if ex, ok := r.(*ssa.Extract); ok && ex.Index == n-1 {
			return ex
		}
	}
	return nil
}

// ResultValue returns the i-th result of a call as an SSA value (nil if never extracted).
func ResultValue(call *ssa.Call, i int) ssa.Value {
	n := call.Common().Signature().Results().Len()
	if n == 1 && i == 0 {
		return call
	}
	for _, r := range *call.Referrers() {
		if ex, ok := r.(*ssa.Extract); ok && ex.Index == i {
			return ex
		}
	}
	return nil
}

// NilTest describes `v != nil` / `v == nil` feeding an If: the successor taken when v is nil / non-nil.
type NilTest struct {
	If     *ssa.If
	Nil    *ssa.BasicBlock
	NonNil *ssa.BasicBlock
}

// NilTests finds all If tests of v against nil (looking through Phi of v into a merged variable is NOT done).
func NilTests(v ssa.Value) []NilTest {
	var out []NilTest
	if v == nil || v.Referrers() == nil {
		return nil
	}
	for _, r := range *v.Referrers() {
		b, ok := r.(*ssa.BinOp)
		if !ok || (b.Op != token.NEQ && b.Op != token.EQL) || !(IsNilConst(b.X) || IsNilConst(b.Y)) {
			continue
		}
		for _, rr := range *b.Referrers() {
			iff, ok := rr.(*ssa.If)
			if !ok {
				continue
			}
			blk := iff.Block()
			t := NilTest{If: iff, Nil: blk.Succs[1], NonNil: blk.Succs[0]}
			if b.Op == token.EQL {
				t.Nil, t.NonNil = blk.Succs[0], blk.Succs[1]
			}
			out = append(out, t)
		}
	}
	return out
}

// OnNilErrEdge: site executes only after call returned a nil error (dominated by the nil edge of a test of its error).
func OnNilErrEdge(call *ssa.Call, site ssa.Instruction) bool {
	ev := ErrValue(call)
	for _, t := range NilTests(ev) {
		if EdgeDominates(t.If.Block(), t.Nil, site.Block()) {
			return true
		}
	}
	return false
}

// OnNonNilEdge: site executes only when v was non-nil.
func OnNonNilEdge(v ssa.Value, site ssa.Instruction) bool {
	for _, t := range NilTests(v) {
		if EdgeDominates(t.If.Block(), t.NonNil, site.Block()) {
			return true
		}
	}
	return false
}

// OnNilEdge: site executes only when v was nil.
func OnNilEdge(v ssa.Value, site ssa.Instruction) bool {
	for _, t := range NilTests(v) {
		if EdgeDominates(t.If.Block(), t.Nil, site.Block()) {
			return true
		}
	}
	return false
}

// ---- returns ----------------------------------------------------------------------------------

type RetKind int

const (
	RetSuccess RetKind = iota // error operand is the nil constant (or function has no error result)
	RetError                  // error operand is provably non-nil
	RetMaybe                  // error operand is a variable that may be either
)

// Returns lists the Return instructions of fn.
func Returns(fn *ssa.Function) []*ssa.Return {
	var out []*ssa.Return
	for _, b := range fn.Blocks {
		if len(b.Instrs) == 0 {
			continue
		}
		if r, ok := b.Instrs[len(b.Instrs)-1].(*ssa.Return); ok {
			out = append(out, r)
		}
	}
	return out
}

// IsErrCtor reports calls that always produce a non-nil error (given a non-nil wrapped error where applicable).
func IsErrCtor(v ssa.Value) bool {
	call, ok := v.(*ssa.Call)
	if !ok {
		return false
	}
	cal := Callee(call.Common())
	if cal == nil {
		return false
	}
	switch cal.String() {
	case "github.com/pkg/errors.Errorf", "github.com/pkg/errors.New", "errors.New", "fmt.Errorf":
		return true
	}
	return false
}

// IsErrWrap reports pkg/errors wrappers that return nil iff their first argument is nil.
func IsErrWrap(v ssa.Value) (inner ssa.Value, ok bool) {
	call, isCall := v.(*ssa.Call)
	if !isCall {
		return nil, false
	}
	cal := Callee(call.Common())
	if cal == nil {
		// a decoration behind an internal seam: every implementation must be a wrapper of the same parameter
		impls := SeamAll(call.Common())
		if g := Seam(call.Common()); g != nil {
			impls = []*ssa.Function{g}
		}
		idx := -1
		for _, g := range impls {
			i, isWrap := wrapsParam(g, 0)
			if !isWrap || (idx >= 0 && i != idx) {
				return nil, false
			}
			idx = i
		}
		if idx < 1 || idx-1 >= len(call.Common().Args) {
			return nil, false
		}
		return call.Common().Args[idx-1], true // (the receiver of an invoke is not among the arguments)
	}
	switch cal.String() {
	case "github.com/pkg/errors.Wrap", "github.com/pkg/errors.Wrapf", "github.com/pkg/errors.WithMessage",
		"github.com/pkg/errors.WithMessagef", "github.com/pkg/errors.WithStack":
		return call.Common().Args[0], true
	}
	if cal.Blocks != nil && cal.Pkg != nil && InScopePath(cal.Pkg.Pkg.Path()) {
		if i, isWrap := wrapsParam(cal, 0); isWrap && i < len(call.Common().Args) {
			return call.Common().Args[i], true
		}
	}
	return nil, false
}

var wrapsParamMemo sync.Map // *ssa.Function -> int (parameter index, -1: not a wrapper)

// wrapsParam: fn has exactly one error parameter, and every return hands back that parameter, a pkg/errors wrapper
// of it, or a freshly constructed error - it answers nil only if it was given nil.
func wrapsParam(fn *ssa.Function, depth int) (int, bool) {
	if fn == nil || fn.Blocks == nil || depth > 2 {
		return -1, false
	}
	if v, ok := wrapsParamMemo.Load(fn); ok {
		return v.(int), v.(int) >= 0
	}
	res := -1
	defer func() { wrapsParamMemo.Store(fn, res) }()
	sig := fn.Signature
	if sig.Results().Len() != 1 || !isErrType(sig.Results().At(0).Type()) {
		return -1, false
	}
	idx := -1
	for i, p := range fn.Params {
		if isErrType(p.Type()) {
			if idx >= 0 {
				return -1, false
			}
			idx = i
		}
	}
	if idx < 0 {
		return -1, false
	}
	p := fn.Params[idx]
	var carrier func(v ssa.Value, d int) bool
	carrier = func(v ssa.Value, d int) bool {
		if d > 4 {
			return false
		}
		if v == ssa.Value(p) || IsErrCtor(v) {
			return true
		}
		if ph, isPhi := v.(*ssa.Phi); isPhi {
			for _, e := range ph.Edges {
				if !carrier(e, d+1) {
					return false
				}
			}
			return true
		}
		if call, isCall := v.(*ssa.Call); isCall {
			if cal := Callee(call.Common()); cal != nil && cal != fn {
				switch cal.String() {
				case "github.com/pkg/errors.Wrap", "github.com/pkg/errors.Wrapf", "github.com/pkg/errors.WithMessage",
					"github.com/pkg/errors.WithMessagef", "github.com/pkg/errors.WithStack":
					return carrier(call.Common().Args[0], d+1)
				}
				if cal.Blocks != nil {
					if i, ok := wrapsParam(cal, depth+1); ok && i < len(call.Common().Args) {
						return carrier(call.Common().Args[i], d+1)
					}
				}
			}
		}
		return false
	}
	n := 0
	for _, ret := range Returns(fn) {
		n++
		if len(ret.Results) != 1 || !carrier(ret.Results[0], 0) {
			return -1, false
		}
	}
	if n == 0 {
		return -1, false
	}
	res = idx
	return idx, true
}

func isErrType(t types.Type) bool {
	n, ok := t.(*types.Named)
	return ok && n.Obj().Pkg() == nil && n.Obj().Name() == "error"
}

// NonNilAt: v is provably a non-nil error at instruction `at`.
func NonNilAt(v ssa.Value, at ssa.Instruction, depth int) bool {
	return nonNilAt(v, at, depth, map[ssa.Value]bool{}, nil)
}

// NonNilAtFrom is NonNilAt for executions that pass through one of the blocks of `from` first: at a phi only the
// incoming edges whose predecessor lies in `from` count (the others belong to paths that did not come that way).
func NonNilAtFrom(v ssa.Value, at ssa.Instruction, from map[*ssa.BasicBlock]bool) bool {
	return nonNilAt(v, at, 0, map[ssa.Value]bool{}, from)
}

func nonNilAt(v ssa.Value, at ssa.Instruction, depth int, onStack map[ssa.Value]bool, from map[*ssa.BasicBlock]bool) bool {
	if depth > 8 || v == nil {
		return false
	}
	if IsNilConst(v) {
		return false
	}
	if IsErrCtor(v) {
		return true
	}
	if in, ok := IsErrWrap(v); ok {
		def, isInstr := v.(ssa.Instruction)
		if isInstr {
			return nonNilAt(in, def, depth+1, onStack, from)
		}
		return false
	}
	if OnNonNilEdge(v, at) {
		return true
	}
	if _, ok := v.(*ssa.MakeInterface); ok {
		return true // a concrete value boxed into error is non-nil as an interface
	}
	if call, ok := v.(*ssa.Call); ok {
		// a helper that builds an error: every return of the static callee is a provably non-nil error
		if cal := call.Common().StaticCallee(); cal != nil && cal.Blocks != nil && depth < 4 && ReturnsError(cal.Signature) && cal.Signature.Results().Len() == 1 {
			all := true
			rets := Returns(cal)
			for _, ret := range rets {
				if !nonNilAt(ret.Results[0], ret, depth+1, onStack, nil) {
					all = false
				}
			}
			if all && len(rets) > 0 {
				return true
			}
		}
	}
	if phi, ok := v.(*ssa.Phi); ok {
		if onStack[phi] {
			return true // loop-carried: non-nil if every entry edge is (coinduction)
		}
		onStack[phi] = true
		defer delete(onStack, phi)
		counted := 0
		for i, e := range phi.Edges {
			pred := phi.Block().Preds[i]
			if from != nil && !from[pred] && phi.Parent() == at.Parent() {
				continue
			}
			counted++
			if len(pred.Instrs) == 0 || !nonNilAt(e, pred.Instrs[len(pred.Instrs)-1], depth+1, onStack, from) {
				return false
			}
		}
		return counted > 0
	}
	return false
}

// ClassifyReturn classifies a return by its error operand.
func ClassifyReturn(r *ssa.Return) RetKind {
	fn := r.Parent()
	if !ReturnsError(fn.Signature) {
		return RetSuccess
	}
	e := r.Results[len(r.Results)-1]
	if IsNilConst(e) {
		return RetSuccess
	}
	if NonNilAt(e, r, 0) {
		return RetError
	}
	return RetMaybe
}

// ---- reachability and loops ----------------------------------------------------------------------

// BlockReaches: there is a CFG path of length >= 1 from a to b.
func BlockReaches(a, b *ssa.BasicBlock) bool {
	seen := map[*ssa.BasicBlock]bool{}
	var walk func(x *ssa.BasicBlock) bool
	walk = func(x *ssa.BasicBlock) bool {
		for _, s := range x.Succs {
			if s == b {
				return true
			}
			if !seen[s] {
				seen[s] = true
				if walk(s) {
					return true
				}
			}
		}
		return false
	}
	return walk(a)
}

// InLoop: the block lies on a CFG cycle.
func InLoop(b *ssa.BasicBlock) bool { return BlockReaches(b, b) }

// ReachableFrom collects blocks reachable from start (inclusive) without entering `stop` blocks.
func ReachableFrom(start *ssa.BasicBlock, stop map[*ssa.BasicBlock]bool) map[*ssa.BasicBlock]bool {
	seen := map[*ssa.BasicBlock]bool{}
	var walk func(x *ssa.BasicBlock)
	walk = func(x *ssa.BasicBlock) {
		if seen[x] || stop[x] {
			return
		}
		seen[x] = true
		for _, s := range x.Succs {
			walk(s)
		}
	}
	walk(start)
	return seen
}

// Loop is a natural loop.
type Loop struct {
	Header *ssa.BasicBlock
	Blocks map[*ssa.BasicBlock]bool
}

// Loops returns the natural loops of fn (one per header, bodies of back edges merged).
func Loops(fn *ssa.Function) []*Loop {
	if l, ok := loopCache.Load(fn); ok {
		return l.([]*Loop)
	}
	l := computeLoops(fn)
	loopCache.Store(fn, l)
	return l
}

var loopCache sync.Map

func computeLoops(fn *ssa.Function) []*Loop {
	byHdr := map[*ssa.BasicBlock]*Loop{}
	var order []*ssa.BasicBlock
	for _, b := range fn.Blocks {
		for _, s := range b.Succs {
			if s.Dominates(b) { // back edge b->s
				l := byHdr[s]
				if l == nil {
					l = &Loop{Header: s, Blocks: map[*ssa.BasicBlock]bool{s: true}}
					byHdr[s] = l
					order = append(order, s)
				}
				var stack = []*ssa.BasicBlock{b}
				for len(stack) > 0 {
					x := stack[len(stack)-1]
					stack = stack[:len(stack)-1]
					if l.Blocks[x] {
						continue
					}
					l.Blocks[x] = true
					stack = append(stack, x.Preds...)
				}
			}
		}
	}
	var out []*Loop
	for _, h := range order {
		out = append(out, byHdr[h])
	}
	return out
}

// InnermostLoop returns the smallest loop containing b, or nil.
func InnermostLoop(fn *ssa.Function, b *ssa.BasicBlock) *Loop {
	var best *Loop
	for _, l := range Loops(fn) {
		if l.Blocks[b] && (best == nil || len(l.Blocks) < len(best.Blocks)) {
			best = l
		}
	}
	return best
}

// RangeLoop describes `for i, x := range S` over a slice as compiled by go/ssa.
type RangeLoop struct {
	Loop   *Loop
	Slice  ssa.Value // the ranged value
	Index  *ssa.Phi  // induction variable (-1 based, incremented before use)
	Next   ssa.Value // Index + 1 : the index used in the body
	Body   *ssa.BasicBlock
	Done   *ssa.BasicBlock
	Header *ssa.BasicBlock
}

// RangeLoops recognises forward slice ranges structurally: header has phi(-1, phi+1), `phi+1 < len(S)`,
// len(S) computed before the loop.
func RangeLoops(fn *ssa.Function) []*RangeLoop {
	if l, ok := rangeLoopCache.Load(fn); ok {
		return l.([]*RangeLoop)
	}
	l := computeRangeLoops(fn)
	rangeLoopCache.Store(fn, l)
	return l
}

var rangeLoopCache sync.Map

func computeRangeLoops(fn *ssa.Function) []*RangeLoop {
	var out []*RangeLoop
	for _, l := range Loops(fn) {
		h := l.Header
		if len(h.Instrs) < 3 {
			continue
		}
		iff, ok := h.Instrs[len(h.Instrs)-1].(*ssa.If)
		if !ok {
			continue
		}
		cmp, ok := iff.Cond.(*ssa.BinOp)
		if !ok || cmp.Op != token.LSS {
			continue
		}
		inc, ok := cmp.X.(*ssa.BinOp)
		if !ok || inc.Op != token.ADD {
			continue
		}
		phi, ok := inc.X.(*ssa.Phi)
		if !ok || phi.Block() != h {
			continue
		}
		one, ok := inc.Y.(*ssa.Const)
		if !ok || one.Value == nil || one.Value.String() != "1" {
			continue
		}
		// phi edges: -1 from outside, inc from the back edge
		okPhi := true
		for i, e := range phi.Edges {
			if l.Blocks[h.Preds[i]] {
				if e != ssa.Value(inc) {
					okPhi = false
				}
			} else if k, isK := e.(*ssa.Const); !isK || k.Value == nil || k.Value.String() != "-1" {
				okPhi = false
			}
		}
		if !okPhi {
			continue
		}
		ln, ok := cmp.Y.(*ssa.Call)
		if !ok {
			continue
		}
		bi, ok := ln.Common().Value.(*ssa.Builtin)
		if !ok || bi.Name() != "len" || l.Blocks[ln.Block()] {
			continue
		}
		out = append(out, &RangeLoop{Loop: l, Slice: ln.Common().Args[0], Index: phi, Next: inc,
			Body: h.Succs[0], Done: h.Succs[1], Header: h})
	}
	// the hand-written equivalent: for i := 0; i < len(S); i++ { ... S[i] ... } with S loop-invariant
	for _, l := range Loops(fn) {
		h := l.Header
		dup := false
		for _, r := range out {
			if r.Header == h {
				dup = true
			}
		}
		if dup || len(h.Instrs) < 2 || len(h.Succs) != 2 {
			continue
		}
		iff, ok := h.Instrs[len(h.Instrs)-1].(*ssa.If)
		if !ok {
			continue
		}
		cmp, ok := iff.Cond.(*ssa.BinOp)
		if !ok {
			continue
		}
		var iv, bound ssa.Value
		switch cmp.Op {
		case token.LSS, token.NEQ:
			iv, bound = cmp.X, cmp.Y
		case token.GTR:
			iv, bound = cmp.Y, cmp.X
		default:
			continue
		}
		phi, ok := iv.(*ssa.Phi)
		if !ok || phi.Block() != h {
			continue
		}
		ln, ok := bound.(*ssa.Call)
		if !ok {
			continue
		}
		bi, ok := ln.Common().Value.(*ssa.Builtin)
		if !ok || bi.Name() != "len" {
			continue
		}
		if ln.Block() != h && l.Blocks[ln.Block()] {
			continue
		}
		sl := ln.Common().Args[0]
		if _, isSlice := sl.Type().Underlying().(*types.Slice); !isSlice {
			continue
		}
		if in, isInstr := sl.(ssa.Instruction); isInstr && in.Block() != nil && l.Blocks[in.Block()] {
			continue // the slice itself changes inside the loop
		}
		okPhi := true
		for i, e := range phi.Edges {
			if l.Blocks[h.Preds[i]] {
				inc, isInc := e.(*ssa.BinOp)
				if !isInc || inc.Op != token.ADD || inc.X != ssa.Value(phi) {
					okPhi = false
					continue
				}
				if one, isK := inc.Y.(*ssa.Const); !isK || one.Value == nil || one.Value.String() != "1" {
					okPhi = false
				}
			} else if k, isK := e.(*ssa.Const); !isK || k.Value == nil || k.Value.String() != "0" {
				okPhi = false
			}
		}
		if !okPhi || !l.Blocks[h.Succs[0]] || l.Blocks[h.Succs[1]] {
			continue
		}
		out = append(out, &RangeLoop{Loop: l, Slice: sl, Index: phi, Next: phi, Body: h.Succs[0], Done: h.Succs[1], Header: h})
	}
	return out
}

// RangeLoopOf returns the innermost recognised range loop containing b.
func RangeLoopOf(fn *ssa.Function, b *ssa.BasicBlock) *RangeLoop {
	var best *RangeLoop
	for _, r := range RangeLoops(fn) {
		if r.Loop.Blocks[b] && (best == nil || len(r.Loop.Blocks) < len(best.Loop.Blocks)) {
			best = r
		}
	}
	return best
}

// ElemOf reports whether v is the element S[i] of range loop r (a load of IndexAddr(S, next)).
func (r *RangeLoop) ElemOf(v ssa.Value) bool {
	u, ok := v.(*ssa.UnOp)
	if !ok || u.Op != token.MUL {
		return false
	}
	ia, ok := u.X.(*ssa.IndexAddr)
	if !ok {
		return false
	}
	return ia.X == r.Slice && ia.Index == r.Next
}

// Guards returns every branch edge that dominates blk: conditions that hold on all paths reaching blk.
func Guards(blk *ssa.BasicBlock) []CondEdge {
	var out []CondEdge
	for _, a := range blk.Parent().Blocks {
		if len(a.Succs) != 2 {
			continue
		}
		iff, ok := a.Instrs[len(a.Instrs)-1].(*ssa.If)
		if !ok {
			continue
		}
		for k, s := range a.Succs {
			if a.Succs[0] == a.Succs[1] {
				continue
			}
			if EdgeDominates(a, s, blk) {
				out = append(out, CondEdge{iff, k == 0})
			}
		}
	}
	return out
}
