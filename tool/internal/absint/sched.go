package absint

import (
	"fmt"
	"go/types"

	"golang.org/x/tools/go/ssa"
)

// A cooperative scheduler for interpreted goroutines.  Exactly one goroutine of the interpreted program runs at a time;
// it runs until it finishes or until an operation it executes cannot proceed (a receive from an empty open channel, a
// send nobody takes, WaitGroup.Wait with a raised counter, a held mutex); then another one that can proceed is picked.
// With ParentFirst the goroutine that started the others is preferred whenever it can run (the others only run
// while it waits): it gets as far ahead of them as the program allows, which is the schedule under which a missing
// or miscounted join shows - the function returns while goroutines it started have not finished.  Otherwise a new
// goroutine is run at its go statement until it blocks or finishes (the schedule under which "Done before Add" shows).
// When nothing can proceed the program is deadlocked, which the run reports as Deadlock.

type gor struct {
	id       int
	resume   chan struct{}
	ended    chan struct{} // closed when the host goroutine has unwound
	cond     func() bool   // nil: can run
	what     string
	done     bool
	depth    int
	deferred [][]func()
	curFn    Value
}

type sched struct {
	all      []*gor
	cur      *gor
	failure  any // an Undecided / GoPanic raised in a goroutine other than the main one
	aborting bool
	draining bool
}

type abortGoroutine struct{}

// Deadlock is raised (as a panic) when no goroutine of the interpreted program can proceed.
type Deadlock struct{ Msg string }

func (ip *Interp) schedInit() {
	if ip.sc == nil {
		main := &gor{id: 0, resume: make(chan struct{})}
		ip.sc = &sched{all: []*gor{main}, cur: main}
	}
}

// Unfinished: the goroutines started so far that have not run to completion.
func (ip *Interp) Unfinished() int {
	if ip.sc == nil {
		return 0
	}
	n := 0
	for _, g := range ip.sc.all[1:] {
		if !g.done {
			n++
		}
	}
	return n
}

// Goroutines: how many goroutines the run has started.
func (ip *Interp) Goroutines() int {
	if ip.sc == nil {
		return 0
	}
	return len(ip.sc.all) - 1
}

// CurrentGoroutine: 0 for the goroutine the run started in, 1.. for the ones it started.
func (ip *Interp) CurrentGoroutine() int {
	if ip.sc == nil {
		return 0
	}
	return ip.sc.cur.id
}

func (ip *Interp) saveTo(g *gor) { g.depth, g.deferred, g.curFn = ip.depth, ip.Deferred, ip.CurFn }

func (ip *Interp) loadFrom(g *gor) {
	ip.depth, ip.Deferred, ip.CurFn = g.depth, g.deferred, g.curFn
	ip.sc.cur = g
}

// runnable: the goroutines that can proceed, the preferred one first.
func (ip *Interp) pick(exclude *gor) *gor {
	s := ip.sc
	order := s.all
	if !ip.ParentFirst {
		// youngest first: a goroutine that was just started gets to run before its elders continue
		order = nil
		for i := len(s.all) - 1; i >= 0; i-- {
			order = append(order, s.all[i])
		}
	}
	for _, g := range order {
		if g.done || g == exclude {
			continue
		}
		if g.cond == nil || g.cond() {
			return g
		}
	}
	return nil
}

// switchTo hands the processor to g and waits until it comes back to the caller (or, for a finished caller, does not wait).
func (ip *Interp) switchTo(from, g *gor) {
	ip.saveTo(from)
	ip.loadFrom(g)
	g.resume <- struct{}{}
	if from.done {
		return
	}
	<-from.resume
	// (whoever resumed us has loaded our state)
	if ip.sc.aborting && from.id != 0 {
		panic(abortGoroutine{})
	}
	if ip.sc.failure != nil && from.id == 0 {
		f := ip.sc.failure
		ip.sc.failure = nil
		panic(f)
	}
}

// Block makes the current goroutine wait until cond holds (other goroutines run meanwhile).  Without a scheduler an
// operation that would block leaves the model.
func (ip *Interp) Block(cond func() bool, what string) {
	if cond() {
		return
	}
	if ip.sc == nil || !ip.Sched {
		undecided("%s (the sequential model cannot schedule the other side)", what)
	}
	cur := ip.sc.cur
	cur.cond, cur.what = cond, what
	for !cond() {
		next := ip.pick(cur)
		if next == nil {
			cur.cond = nil
			if ip.sc.draining && cur.id != 0 {
				// after the main function's return: this goroutine waits (perhaps for ever); the drain goes on with the others
				ip.switchTo(cur, ip.sc.all[0])
				continue
			}
			msg := "all goroutines are blocked: goroutine " + fmt.Sprint(cur.id) + " in " + what
			for _, g := range ip.sc.all {
				if g != cur && !g.done {
					msg += fmt.Sprintf("; goroutine %d in %s", g.id, g.what)
				}
			}
			if cur.id != 0 {
				// report through the main goroutine (this one stays parked until the run is wound up)
				ip.sc.failure = &Deadlock{Msg: msg}
				ip.switchTo(cur, ip.sc.all[0])
				panic(abortGoroutine{})
			}
			panic(&Deadlock{Msg: msg})
		}
		ip.switchTo(cur, next)
	}
	cur.cond = nil
}

// Yield lets the preferred goroutine run if it is not the current one (called after operations that may have enabled it).
func (ip *Interp) Yield() {
	if ip.sc == nil || !ip.Sched {
		return
	}
	cur := ip.sc.cur
	if next := ip.pick(nil); next != nil && next != cur {
		// only give way to a goroutine the policy prefers over the current one
		if ip.ParentFirst && next.id < cur.id || !ip.ParentFirst && next.id > cur.id {
			ip.switchTo(cur, next)
		}
	}
}

// goStart starts an interpreted goroutine under the scheduler.
func (ip *Interp) goStart(f *frame, x *ssa.Go, args []Value) {
	ip.schedInit()
	s := ip.sc
	g := &gor{id: len(s.all), resume: make(chan struct{}), ended: make(chan struct{}), depth: 0}
	s.all = append(s.all, g)
	if ip.OnGo != nil {
		ip.OnGo(x, true)
	}
	go func() {
		<-g.resume
		defer close(g.ended)
		defer func() {
			r := recover()
			g.done = true
			if _, aborted := r.(abortGoroutine); aborted {
				return
			}
			if r != nil {
				switch r.(type) {
				case *Undecided, *GoPanic, *Deadlock:
					if s.failure == nil {
						s.failure = r
					}
				default:
					if s.failure == nil {
						s.failure = &Undecided{Msg: fmt.Sprint("internal error in an interpreted goroutine: ", r)}
					}
				}
			}
			if ip.OnGoEnd != nil && r == nil {
				ip.OnGoEnd(g.id)
			}
			if s.aborting {
				return
			}
			// hand the processor on: to the main goroutine at once if something failed, else to whoever can run
			next := ip.pick(g)
			if s.failure != nil {
				next = s.all[0]
			}
			if next == nil {
				// nobody can proceed: the main goroutine reports it
				if s.failure == nil && !s.draining {
					msg := "all goroutines are blocked after goroutine " + fmt.Sprint(g.id) + " finished"
					for _, o := range s.all {
						if !o.done {
							msg += fmt.Sprintf("; goroutine %d in %s", o.id, o.what)
						}
					}
					s.failure = &Deadlock{Msg: msg}
				}
				next = s.all[0]
			}
			ip.saveTo(g)
			ip.loadFrom(next)
			next.resume <- struct{}{}
		}()
		if s.aborting {
			panic(abortGoroutine{})
		}
		ip.Deferred = nil
		ip.depth = 0
		ip.call(f, x, args)
	}()
	if !ip.ParentFirst {
		// the new goroutine runs first, until it blocks or finishes
		ip.switchTo(s.cur, g)
	}
}

// selectOp: a select statement.  It waits until one of its communications can proceed (or takes the default); when
// several can, each is explored (a choice on the tape).
func (ip *Interp) selectOp(f *frame, x *ssa.Select) Value {
	type st struct {
		ch   *Chan
		send bool
		val  Value
	}
	var sts []st
	for _, s := range x.States {
		v := ip.eval(f, s.Chan)
		ch, ok := v.(*Chan)
		if !ok {
			if _, isNil := v.(Nil); isNil {
				sts = append(sts, st{}) // a nil channel: never ready
				continue
			}
			undecided("select on %s", Show(v))
		}
		e := st{ch: ch, send: s.Dir == types.SendOnly}
		if e.send {
			e.val = ip.eval(f, s.Send)
		}
		sts = append(sts, e)
	}
	ready := func() []int {
		var r []int
		for i, s := range sts {
			switch {
			case s.ch == nil:
			case s.send && (s.ch.Closed || len(s.ch.Q) < s.ch.Cap+s.ch.Receivers):
				r = append(r, i)
			case !s.send && (len(s.ch.Q) > 0 || s.ch.Closed):
				r = append(r, i)
			}
		}
		return r
	}
	r := ready()
	if len(r) == 0 && x.Blocking {
		for _, s := range sts {
			if s.ch != nil && !s.send {
				s.ch.Receivers++
			}
		}
		func() {
			defer func() {
				for _, s := range sts {
					if s.ch != nil && !s.send {
						s.ch.Receivers--
					}
				}
			}()
			ip.Block(func() bool { return len(ready()) > 0 }, "a select none of whose communications can proceed")
		}()
		r = ready()
	}
	nRecv := 0
	for _, s := range x.States {
		if s.Dir == types.RecvOnly {
			nRecv++
		}
	}
	res := make(Tuple, 2+nRecv)
	res[0], res[1] = Int(-1), Bool(false)
	k := 0
	for i, s := range x.States {
		if s.Dir == types.RecvOnly {
			res[2+k] = ip.ZeroOf(s.Chan.Type().Underlying().(*types.Chan).Elem())
			k++
		}
		_ = i
	}
	if len(r) == 0 {
		return res // default
	}
	pick := r[ip.Choose(len(r), "select case")]
	s := sts[pick]
	res[0] = Int(int64(pick))
	if s.send {
		if s.ch.Closed {
			panic(&GoPanic{Msg: "send on closed channel"})
		}
		s.ch.Q = append(s.ch.Q, s.val)
		if ip.OnChan != nil {
			ip.OnChan("send", s.ch)
		}
		ip.Yield()
		return res
	}
	slot := 2
	for i := 0; i < pick; i++ {
		if x.States[i].Dir == types.RecvOnly {
			slot++
		}
	}
	if len(s.ch.Q) > 0 {
		res[slot], res[1] = s.ch.Q[0], Bool(true)
		s.ch.Q = s.ch.Q[1:]
		if ip.OnChan != nil {
			ip.OnChan("recv", s.ch)
		}
		ip.Yield()
	}
	return res
}

// drain is called when the main function has returned: the goroutines that can still proceed run on (what they do
// now happens after the return; Returned tells the hooks).  Goroutines that wait for ever stay where they are.
func (ip *Interp) drain() {
	if ip.sc == nil {
		return
	}
	ip.Returned = true
	s := ip.sc
	main := s.all[0]
	s.draining = true
	main.cond, main.what = func() bool { return false }, "returned"
	for {
		next := ip.pick(main)
		if next == nil {
			break
		}
		ip.switchTo(main, next)
	}
	main.cond = nil
}

// schedFinish is called when the main function has returned: the goroutines still parked are released (they end
// without running on).  Returns how many had not finished.
func (ip *Interp) schedFinish() int {
	if ip.sc == nil {
		return 0
	}
	if ip.sc.aborting {
		return 0
	}
	n := ip.Unfinished()
	ip.sc.aborting = true
	depth, deferred, curFn := ip.depth, ip.Deferred, ip.CurFn
	for _, g := range ip.sc.all[1:] {
		if !g.done {
			// parked (at its start or in a blocked operation): let it unwind, one at a time, on its own stack of
			// deferred calls
			ip.loadFrom(g)
			g.resume <- struct{}{}
		}
		<-g.ended
	}
	ip.depth, ip.Deferred, ip.CurFn = depth, deferred, curFn
	return n
}
