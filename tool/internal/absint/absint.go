// Package absint interprets small SSA functions over a finite abstract domain (DESIGN §2.1 P5, §4.2).
// Objects are symbolic tokens; containers are short lists of tokens; every call that is not an inlined
// in-scope helper or closure is answered by a per-rule oracle.  Nothing of /repo is compiled or executed.
package absint

import (
	"fmt"
	"go/constant"
	"go/token"
	"go/types"
	"sort"
	"strings"
	"unicode/utf8"

	"golang.org/x/tools/go/ssa"
)

// ---- values -------------------------------------------------------------------------------------

type Value interface{}

type Nil struct{}

type Bool bool

type Int int64

type Str string

// Tok is an abstract object with pointer identity.  Class/Attr are free for the oracle.
type Tok struct {
	ID     string
	Class  string
	Attr   map[string]Value
	Fields map[string]Value
}

func NewTok(id, class string) *Tok {
	return &Tok{ID: id, Class: class, Attr: map[string]Value{}, Fields: map[string]Value{}}
}

// List is a slice value.  Lists are treated as immutable snapshots: append builds a new List.
type List struct {
	Elems []Value
	IsNil bool
	// View: produced by slicing another slice or array; the model copies the elements, so a store through a view is
	// not seen by the base.  Spare: the view is shorter than its base, an append would overwrite the base's elements.
	View, Spare bool
	// Base, Off: for a view of a list, the list it was cut from and where; a store or copy through the view is written
	// to the base as well (a view sees what was in the base when it was cut, not later writes to the base)
	Base *List
	Off  int
	// GoType: the static slice type the list had when it was last boxed into an interface (type assertions on it)
	GoType types.Type
}

type Tuple []Value

// Chan is a channel under the sequential schedule (goroutines run to completion at their go statement): a FIFO queue.
// An operation that would block - a receive from an empty open channel, a send beyond the capacity - cannot be
// scheduled by this model and leaves it.
type Chan struct {
	Q      []Value
	Cap    int
	Closed bool
	Elem   types.Type
	// Receivers: goroutines waiting in a receive (a send on an unbuffered channel proceeds when one is)
	Receivers int
}

type Closure struct {
	Fn   *ssa.Function
	Bind []Value
}

// Cell is the target of an Alloc of non-struct type.
type Cell struct {
	V Value
	// Elem: the variable's type, when the cell was made by the interpreted code itself (`new(I)` used as a witness
	// of the interface I)
	Elem types.Type
}

// Array is the target of an Alloc of array type.
type Array struct{ Elems []Value }

type FieldRef struct {
	Obj  *Tok
	Name string
	Typ  types.Type
	// Flat: an embedded by-value struct field that nothing has been stored into: its fields are looked up in Obj
	// itself (the embedding struct and its embedded parts share one field namespace, as promoted selectors do)
	Flat bool
	// Part: a flat field that is not embedded (a named part of the holder's state, see partOfHolder)
	Part bool
	// Owner: the struct type the field was selected from (told to the oracle when the field is first read)
	Owner types.Type
}

// partOfHolder: field i of the holder struct is a by-value struct of a named, unexported type of the holder's own
// package, and none of its field names is also a field name of the holder or of another such part.
func partOfHolder(holder types.Type, st *types.Struct, i int) bool {
	hn, ok := holder.(*types.Named)
	if !ok {
		return false
	}
	pn, ok := st.Field(i).Type().(*types.Named)
	if !ok || pn.Obj().Pkg() == nil || pn.Obj().Pkg() != hn.Obj().Pkg() || pn.Obj().Exported() {
		return false
	}
	pt, ok := pn.Underlying().(*types.Struct)
	if !ok || pt.NumFields() == 0 {
		return false
	}
	names := map[string]bool{}
	for k := 0; k < pt.NumFields(); k++ {
		names[pt.Field(k).Name()] = true
	}
	for k := 0; k < st.NumFields(); k++ {
		if names[st.Field(k).Name()] {
			return false
		}
		if k == i {
			continue
		}
		if on, isNamed := st.Field(k).Type().(*types.Named); isNamed && on.Obj().Pkg() == hn.Obj().Pkg() {
			if ot, isStruct := on.Underlying().(*types.Struct); isStruct {
				for j := 0; j < ot.NumFields(); j++ {
					if names[ot.Field(j).Name()] {
						return false
					}
				}
			}
		}
	}
	return true
}

type ElemRef struct {
	Arr  *Array
	List *List
	I    int
}

// MapVal is a Go map with string-like keys.
type MapVal struct {
	M     map[string]Value
	IsNil bool
}

// Lazy is an argument of Run that is computed by the run's interpreter before the subject is called (the value of a
// package-level variable as the package initializer leaves it).
type Lazy struct{ Eval func(ip *Interp) Value }

// LoadGlobal: the current value of a package-level variable (its package is initialised on demand).
func (ip *Interp) LoadGlobal(g *ssa.Global) Value {
	if cell, ok := ip.eval(nil, g).(*Cell); ok {
		if cell.V == nil {
			return ip.ZeroOf(g.Type().Underlying().(*types.Pointer).Elem())
		}
		return cell.V
	}
	return nil
}

// Opaque is a value the model knows nothing about; branching on it makes the run undecided.
type Opaque struct{ Why string }

// Undecided is raised (as a panic) when the subject leaves the modelled fragment.
type Undecided struct{ Msg string }

func (u *Undecided) Error() string { return u.Msg }

func undecided(format string, a ...any) { panic(&Undecided{fmt.Sprintf(format, a...)}) }

// GoPanic is raised when the interpreted code panics (explicit panic, failed assertion, index out of range).
type GoPanic struct{ Msg string }

func Show(v Value) string {
	switch x := v.(type) {
	case nil:
		return "<unset>"
	case Nil:
		return "nil"
	case Bool:
		return fmt.Sprint(bool(x))
	case Int:
		return fmt.Sprint(int64(x))
	case Str:
		return fmt.Sprintf("%q", string(x))
	case *Tok:
		return x.ID
	case *List:
		if x.IsNil && len(x.Elems) == 0 {
			return "[]nil"
		}
		var s []string
		for _, e := range x.Elems {
			s = append(s, Show(e))
		}
		return "[" + strings.Join(s, " ") + "]"
	case Tuple:
		var s []string
		for _, e := range x {
			s = append(s, Show(e))
		}
		return "(" + strings.Join(s, ", ") + ")"
	case *Closure:
		return "closure:" + x.Fn.Name()
	case *Opaque:
		return "?" + x.Why
	case *MapVal:
		var ks []string
		for k := range x.M {
			ks = append(ks, k)
		}
		sort.Strings(ks)
		var s []string
		for _, k := range ks {
			s = append(s, k+":"+Show(x.M[k]))
		}
		return "map{" + strings.Join(s, " ") + "}"
	case *ssa.Function:
		return "func:" + x.Name()
	}
	return fmt.Sprintf("%T", v)
}

// ---- oracle -------------------------------------------------------------------------------------------

// Oracle answers what the interpreter cannot: calls outside the model, type tests, initial field values.
type Oracle interface {
	// Call is asked first for every call. handled=false lets the interpreter inline an in-scope body.
	Call(ip *Interp, site ssa.CallInstruction, args []Value) (ret Value, handled bool)
	// TypeTest answers v.(T); known=false makes the run undecided.
	TypeTest(ip *Interp, v Value, T types.Type) (ok bool, known bool)
	// Field supplies the initial value of an unset field; nil = default (fresh token / opaque).
	Field(ip *Interp, obj *Tok, name string, typ types.Type) Value
	// Global supplies the value of a package-level variable; nil = fresh token.
	Global(ip *Interp, g *ssa.Global) Value
}

// BaseOracle is embeddable: everything unknown.
type BaseOracle struct{}

func (BaseOracle) Call(*Interp, ssa.CallInstruction, []Value) (Value, bool) { return nil, false }
func (BaseOracle) TypeTest(*Interp, Value, types.Type) (bool, bool)         { return false, false }
func (BaseOracle) Field(*Interp, *Tok, string, types.Type) Value            { return nil }
func (BaseOracle) Global(*Interp, *ssa.Global) Value                        { return nil }

// ---- interpreter --------------------------------------------------------------------------------------------

type Interp struct {
	O        Oracle
	Fuel     int
	MaxDepth int
	Tape     []int // nondeterministic choices, consumed left to right
	pos      int
	Arity    []int // arity seen at each tape position (for enumeration)
	Events   []string
	globals  map[*ssa.Global]Value
	// funcTypes: function values that were boxed into an interface under a named function type
	funcTypes map[Value]types.Type
	inited    map[*ssa.Package]bool
	lenient   int // depth of the package initializer being interpreted leniently (0 = none)
	fresh     int
	depth     int
	IsLog     func(*ssa.CallCommon) bool
	InScope   func(*ssa.Function) bool
	GoInline  bool // run goroutines synchronously at their go statement
	// Sched: run goroutines under the cooperative scheduler (sched.go); ParentFirst picks the schedule
	Sched       bool
	ParentFirst bool
	sc          *sched
	// Returned: the function the run started in has returned; goroutines it left behind are running on (see drain)
	Returned bool
	// OnGoEnd, when set, is told when a scheduled goroutine has run to completion
	OnGoEnd func(id int)
	// OnGo, when set, is told when an inlined goroutine starts (enter) and when it has run to completion
	OnGo func(g *ssa.Go, enter bool)
	// FieldOwner: while the oracle is asked for an unset field, the struct type the field is selected from (nil if unknown)
	FieldOwner types.Type
	// OnChan, when set, is told of every completed send and receive
	OnChan   func(op string, ch *Chan)
	Trace    []string // branch decisions, for witnesses
	Deferred [][]func()
	CurFn    Value // for dynamic calls: the evaluated function value, visible to Oracle.Call
}

func New(o Oracle) *Interp {
	return &Interp{O: o, Fuel: 200000, MaxDepth: 14, globals: map[*ssa.Global]Value{}}
}

// Choose consumes one nondeterministic choice in [0,n).
func (ip *Interp) Choose(n int, label string) int {
	if n <= 1 {
		return 0
	}
	v := 0
	if ip.pos < len(ip.Tape) {
		v = ip.Tape[ip.pos]
	}
	if ip.pos < len(ip.Arity) {
		ip.Arity[ip.pos] = n
	} else {
		ip.Arity = append(ip.Arity, n)
	}
	ip.pos++
	if v >= n {
		v = n - 1
	}
	return v
}

// NextTape advances an odometer over the choice tree; ok=false when exhausted.
func NextTape(tape, arity []int) ([]int, bool) {
	t := make([]int, len(arity))
	copy(t, tape)
	for i := len(arity) - 1; i >= 0; i-- {
		if t[i]+1 < arity[i] {
			t[i]++
			return t[:i+1], true
		}
	}
	return nil, false
}

func (ip *Interp) Event(format string, a ...any) {
	ip.Events = append(ip.Events, fmt.Sprintf(format, a...))
}

func (ip *Interp) Fresh(class string) *Tok {
	ip.fresh++
	return NewTok(fmt.Sprintf("%s#%d", class, ip.fresh), class)
}

// Outcome of a top-level run.
type Outcome struct {
	Ret       []Value
	Panic     *GoPanic
	Undecided *Undecided
	Events    []string
	Trace     []string
	// under the scheduler: no goroutine could proceed / how many started goroutines had not finished at the return
	Deadlock   *Deadlock
	Unfinished int
}

// Run interprets fn on args (and optional closure bindings) and classifies the outcome.
func (ip *Interp) Run(fn *ssa.Function, args []Value, bind []Value) (out Outcome) {
	defer func() {
		if r := recover(); r != nil {
			switch x := r.(type) {
			case *Undecided:
				out.Undecided = x
			case *GoPanic:
				out.Panic = x
			case *Deadlock:
				out.Deadlock = x
			default:
				ip.schedFinish()
				panic(r)
			}
		}
		out.Events = ip.Events
		out.Trace = ip.Trace
		out.Unfinished = ip.schedFinish()
	}()
	for i, a := range args {
		if l, ok := a.(*Lazy); ok {
			args[i] = l.Eval(ip) // an argument that only the run's own interpreter can produce
		}
	}
	v := ip.CallFunction(fn, args, bind)
	if t, ok := v.(Tuple); ok {
		out.Ret = []Value(t)
	} else if v != nil {
		out.Ret = []Value{v}
	}
	ip.drain()
	return
}

// initPackage interprets the initializer of an in-scope package once, leniently, so that package-level variables hold
// what their initializer expressions built (dispatch tables, compiled patterns, sentinel values).
func (ip *Interp) initPackage(pkg *ssa.Package) {
	if ip.inited == nil {
		ip.inited = map[*ssa.Package]bool{}
	}
	if ip.inited[pkg] {
		return
	}
	ip.inited[pkg] = true
	init := pkg.Func("init")
	if init == nil || init.Blocks == nil || !ip.InScope(init) {
		return
	}
	saveLenient, saveDepth, saveFuel := ip.lenient, ip.depth, ip.Fuel
	defer func() {
		ip.lenient, ip.depth = saveLenient, saveDepth
		if ip.Fuel < saveFuel-50000 {
			ip.Fuel = saveFuel - 50000
		}
		if r := recover(); r != nil {
			switch r.(type) {
			case *Undecided, *GoPanic:
				// whatever was stored before the initializer left the model stays
			default:
				panic(r)
			}
		}
	}()
	ip.lenient = ip.depth + 1
	// the guard variable reads false on first entry
	if g, ok := pkg.Members["init$guard"].(*ssa.Global); ok {
		ip.globals[g] = &Cell{V: Bool(false)}
	}
	ip.CallFunction(init, nil, nil)
}

type frame struct {
	fn   *ssa.Function
	env  map[ssa.Value]Value
	bind []Value
}

// CallFunction interprets one function body.
func (ip *Interp) CallFunction(fn *ssa.Function, args []Value, bind []Value) Value {
	if fn.Blocks == nil {
		undecided("call of body-less function %s", fn)
	}
	if ip.depth > ip.MaxDepth+8 {
		undecided("inlining depth exceeded at %s", fn)
	}
	ip.depth++
	defer func() { ip.depth-- }()
	if len(args) != len(fn.Params) {
		undecided("arity mismatch calling %s: %d args for %d params", fn, len(args), len(fn.Params))
	}
	f := &frame{fn: fn, env: map[ssa.Value]Value{}, bind: bind}
	for i, p := range fn.Params {
		f.env[p] = args[i]
	}
	ip.Deferred = append(ip.Deferred, nil)
	defer func() { ip.Deferred = ip.Deferred[:len(ip.Deferred)-1] }()
	var prev *ssa.BasicBlock
	blk := fn.Blocks[0]
	for {
		var next *ssa.BasicBlock
		for _, in := range blk.Instrs {
			ip.Fuel--
			if ip.Fuel < 0 {
				undecided("fuel exhausted in %s (possible non-termination in the model)", fn)
			}
			switch x := in.(type) {
			case *ssa.Phi:
				for i, p := range blk.Preds {
					if p == prev {
						f.env[x] = ip.eval(f, x.Edges[i])
					}
				}
			case *ssa.If:
				c := ip.eval(f, x.Cond)
				b, ok := c.(Bool)
				if !ok {
					undecided("branch on %s in %s", Show(c), fn)
				}
				if bool(b) {
					next = blk.Succs[0]
				} else {
					next = blk.Succs[1]
				}
			case *ssa.Jump:
				next = blk.Succs[0]
			case *ssa.Return:
				ds := ip.Deferred[len(ip.Deferred)-1]
				for i := len(ds) - 1; i >= 0; i-- {
					ds[i]()
				}
				ip.Deferred[len(ip.Deferred)-1] = nil
				switch len(x.Results) {
				case 0:
					return nil
				case 1:
					return ip.eval(f, x.Results[0])
				}
				var t Tuple
				for _, r := range x.Results {
					t = append(t, ip.eval(f, r))
				}
				return t
			case *ssa.Panic:
				panic(&GoPanic{Msg: "panic(" + Show(ip.eval(f, x.X)) + ")"})
			case *ssa.RunDefers:
				ds := ip.Deferred[len(ip.Deferred)-1]
				for i := len(ds) - 1; i >= 0; i-- {
					ds[i]()
				}
				ip.Deferred[len(ip.Deferred)-1] = nil
			case *ssa.Store:
				ip.store(ip.eval(f, x.Addr), ip.eval(f, x.Val))
			case *ssa.MapUpdate:
				m, ok := ip.eval(f, x.Map).(*MapVal)
				if !ok {
					undecided("map update on non-map in %s", fn)
				}
				m.M[keyOf(ip.eval(f, x.Key))] = ip.eval(f, x.Value)
				m.IsNil = false
			case *ssa.DebugRef:
			case *ssa.Send:
				ch, ok := ip.eval(f, x.Chan).(*Chan)
				if !ok {
					undecided("send on %s", Show(ip.eval(f, x.Chan)))
				}
				if ch.Closed {
					panic(&GoPanic{Msg: "send on closed channel"})
				}
				val := ip.eval(f, x.X)
				ip.Block(func() bool { return ch.Closed || len(ch.Q) < ch.Cap+ch.Receivers }, "a send that blocks until somebody receives")
				if ch.Closed {
					panic(&GoPanic{Msg: "send on closed channel"})
				}
				ch.Q = append(ch.Q, val)
				if ip.OnChan != nil {
					ip.OnChan("send", ch)
				}
				ip.Yield()
			case *ssa.Go:
				if ip.Sched {
					args, _ := ip.evalArgs(f, x.Common())
					ip.goStart(f, x, args)
					break
				}
				if !ip.GoInline {
					undecided("go statement in %s", fn)
				}
				// sequential schedule: the goroutine runs to completion at its go statement (only for properties
				// that do not depend on the interleaving)
				args, _ := ip.evalArgs(f, x.Common())
				if ip.OnGo != nil {
					ip.OnGo(x, true)
				}
				ip.call(f, x, args)
				if ip.OnGo != nil {
					ip.OnGo(x, false)
				}
			case *ssa.Defer:
				args, _ := ip.evalArgs(f, x.Common())
				site := x
				ip.Deferred[len(ip.Deferred)-1] = append(ip.Deferred[len(ip.Deferred)-1], func() { ip.call(f, site, args) })
			case ssa.Value:
				f.env[x] = ip.step(f, x)
			default:
				undecided("instruction %T in %s", in, fn)
			}
		}
		if next == nil {
			undecided("fell off block %d of %s", blk.Index, fn)
		}
		prev, blk = blk, next
	}
}

func (ip *Interp) eval(f *frame, v ssa.Value) Value {
	switch x := v.(type) {
	case *ssa.Const:
		return constVal(x)
	case *ssa.Function:
		return x
	case *ssa.Builtin:
		return x
	case *ssa.Global:
		if g, ok := ip.globals[x]; ok {
			return g
		}
		var cell Value
		if ip.O != nil {
			if gv := ip.O.Global(ip, x); gv != nil {
				cell = &Cell{V: gv}
			}
		}
		if cell == nil && ip.InScope != nil && x.Pkg != nil {
			// a package-level table or compiled pattern: what the package initializer stores into it
			ip.initPackage(x.Pkg)
			if g, ok := ip.globals[x]; ok {
				return g
			}
		}
		if cell == nil && x.Pkg != nil && ip.InScope != nil && !initStores(x) {
			// declared without an initializer (nothing in the package initializer writes it): its zero value
			if et, ok := x.Type().Underlying().(*types.Pointer); ok {
				switch et.Elem().Underlying().(type) {
				case *types.Slice, *types.Map, *types.Basic:
					cell = &Cell{V: ip.ZeroOf(et.Elem())}
				}
			}
		}
		if cell == nil {
			cell = &Cell{V: NewTok("global:"+x.Name(), "global")}
		}
		ip.globals[x] = cell
		return cell
	case *ssa.FreeVar:
		for i, fv := range f.fn.FreeVars {
			if fv == x {
				if i < len(f.bind) {
					return f.bind[i]
				}
			}
		}
		undecided("unbound free variable %s in %s", x.Name(), f.fn)
	}
	if val, ok := f.env[v]; ok {
		return val
	}
	undecided("use of undefined value %s (%T) in %s", v.Name(), v, f.fn)
	return nil
}

func constVal(k *ssa.Const) Value {
	if k.Value == nil {
		// zero value of the type
		switch t := k.Type().Underlying().(type) {
		case *types.Basic:
			switch {
			case t.Info()&types.IsBoolean != 0:
				return Bool(false)
			case t.Info()&types.IsInteger != 0:
				return Int(0)
			case t.Info()&types.IsString != 0:
				return Str("")
			}
		case *types.Slice:
			return &List{IsNil: true}
		case *types.Map:
			return &MapVal{M: map[string]Value{}, IsNil: true}
		case *types.Struct:
			z := NewTok("zero:"+k.Type().String(), "zero")
			z.Attr["zeroed"] = Bool(true) // every field reads as its zero value
			z.Attr["gotype"] = types.NewPointer(k.Type())
			return z
		}
		return Nil{}
	}
	switch k.Value.Kind() {
	case constant.Bool:
		return Bool(constant.BoolVal(k.Value))
	case constant.String:
		return Str(constant.StringVal(k.Value))
	case constant.Int:
		if i, ok := constant.Int64Val(k.Value); ok {
			return Int(i)
		}
	}
	return &Opaque{"const " + k.Value.String()}
}

// isObject: a value that is certainly not nil.
func isObject(v Value) bool {
	switch v.(type) {
	case *Tok, Str, Int, Bool, *Closure, *ssa.Function:
		return true
	}
	return false
}

// KeyOf: the identity of a value used as a key (a struct value built by the interpreted code: field by field).
func KeyOf(v Value) string { return keyOf(v) }

func keyOf(v Value) string {
	switch x := v.(type) {
	case Str:
		return string(x)
	case Int:
		return fmt.Sprint(int64(x))
	case *Tok:
		if x.Attr["zeroed"] != nil && strings.HasPrefix(x.ID, "alloc") && len(x.Fields) > 0 {
			// a struct value built by the interpreted code used as a key: equal field by field
			var names []string
			for k := range x.Fields {
				names = append(names, k)
			}
			sort.Strings(names)
			out := "struct{"
			for _, k := range names {
				out += k + "=" + keyOf(x.Fields[k]) + ";"
			}
			return out + "}"
		}
		return "tok:" + x.ID
	case Bool:
		return fmt.Sprint(bool(x))
	}
	undecided("unsupported map key %s", Show(v))
	return ""
}

func isPtrToStruct(t types.Type) bool {
	p, ok := t.Underlying().(*types.Pointer)
	if !ok {
		return false
	}
	_, ok = p.Elem().Underlying().(*types.Struct)
	return ok
}

// StrIter is the iterator of a range over a text.
type StrIter struct {
	S string
	I int
}

// MapIter is the iterator of a range over a map (keys in sorted order: one fixed enumeration).
type MapIter struct {
	M    *MapVal
	Keys []string
	I    int
}

// ZeroOf builds the abstract zero value of a type.
// arrayField: the address of a struct field of array type stands for the array held in that field.
func (ip *Interp) arrayField(base Value) Value {
	fr, ok := base.(*FieldRef)
	if !ok {
		return base
	}
	at, ok := fr.Typ.Underlying().(*types.Array)
	if !ok {
		return base
	}
	if a, ok := ip.LoadField(fr.Obj, fr.Name, fr.Typ).(*Array); ok {
		return a
	}
	a := &Array{}
	for i := int64(0); i < at.Len(); i++ {
		a.Elems = append(a.Elems, &Opaque{fmt.Sprintf("%s.%s[%d]", fr.Obj.ID, fr.Name, i)})
	}
	fr.Obj.Fields[fr.Name] = a
	return a
}

func (ip *Interp) ZeroOf(t types.Type) Value {
	switch u := t.Underlying().(type) {
	case *types.Basic:
		switch {
		case u.Info()&types.IsBoolean != 0:
			return Bool(false)
		case u.Info()&types.IsInteger != 0:
			return Int(0)
		case u.Info()&types.IsString != 0:
			return Str("")
		}
		return &Opaque{"zero " + t.String()}
	case *types.Slice:
		return &List{IsNil: true}
	case *types.Map:
		return &MapVal{M: map[string]Value{}, IsNil: true}
	case *types.Struct:
		return ip.Fresh("struct")
	case *types.Array:
		a := &Array{}
		for i := int64(0); i < u.Len(); i++ {
			a.Elems = append(a.Elems, ip.ZeroOf(u.Elem()))
		}
		return a
	}
	return Nil{}
}

func (ip *Interp) load(addr Value, typ types.Type) Value {
	switch a := addr.(type) {
	case *Cell:
		if a.V == nil {
			return ip.ZeroOf(typ)
		}
		return a.V
	case *Tok:
		return a // *p of a struct pointer: the object itself
	case *FieldRef:
		if a.Flat {
			if _, has := a.Obj.Fields[a.Name]; !has {
				if a.Part {
					// the value of a named part: the part's own fields as the holder has them
					part := ip.Fresh("part:" + a.Name)
					if pt, ok := a.Typ.Underlying().(*types.Struct); ok {
						for k := 0; k < pt.NumFields(); k++ {
							part.Fields[pt.Field(k).Name()] = ip.LoadField(a.Obj, pt.Field(k).Name(), pt.Field(k).Type())
						}
					}
					return part
				}
				return a.Obj
			}
		}
		ip.FieldOwner = a.Owner
		defer func() { ip.FieldOwner = nil }()
		return ip.LoadField(a.Obj, a.Name, typ)
	case *ElemRef:
		if a.Arr != nil {
			return a.Arr.Elems[a.I]
		}
		return a.List.Elems[a.I]
	case Nil:
		panic(&GoPanic{Msg: "nil pointer dereference"})
	}
	undecided("load through %s", Show(addr))
	return nil
}

// LoadField reads a field of a token, initialising it lazily.
func (ip *Interp) LoadField(obj *Tok, name string, typ types.Type) Value {
	if v, ok := obj.Fields[name]; ok {
		return v
	}
	if src, ok := obj.Attr["copyOf"].(*Tok); ok && src != obj {
		// a by-value copy of a struct whose field had not been looked at yet: the copy holds what the original holds
		v := ip.LoadField(src, name, typ)
		obj.Fields[name] = v
		return v
	}
	var v Value
	if ip.O != nil {
		v = ip.O.Field(ip, obj, name, typ)
	}
	if v == nil && (obj.Attr["zeroed"] != nil || (obj.Class == "struct" && strings.HasPrefix(obj.ID, "struct#"))) {
		// (a struct value that began as the zero value of its type: what was not stored since is still zero)
		v = ip.ZeroOf(typ)
		if t, ok := v.(*Tok); ok {
			t.Attr["zeroed"] = Bool(true)
		}
	}
	if v == nil {
		switch u := typ.Underlying().(type) {
		case *types.Pointer, *types.Struct, *types.Interface, *types.Signature:
			v = NewTok(obj.ID+"."+name, "field")
		case *types.Basic:
			_ = u
			v = &Opaque{obj.ID + "." + name}
		default:
			v = &Opaque{obj.ID + "." + name}
		}
	}
	obj.Fields[name] = v
	return v
}

func (ip *Interp) store(addr, val Value) {
	switch a := addr.(type) {
	case *Cell:
		a.V = val
	case *FieldRef:
		if t, ok := val.(*Tok); ok && a.Flat {
			if _, has := a.Obj.Fields[a.Name]; !has {
				// initialising the embedded part: its fields become the embedding object's
				for k, v := range t.Fields {
					a.Obj.Fields[k] = v
				}
				return
			}
		}
		a.Obj.Fields[a.Name] = val
	case *ElemRef:
		if a.Arr != nil {
			a.Arr.Elems[a.I] = val
		} else {
			if a.List.View {
				if a.List.Base == nil || a.List.Off+a.I >= len(a.List.Base.Elems) {
					undecided("store through a re-sliced slice (aliasing with its base is not modelled)")
				}
				a.List.Base.Elems[a.List.Off+a.I] = val
			}
			a.List.Elems[a.I] = val
		}
	case *Tok:
		// *p = structValue: whole-object assignment; only zero-value initialisation is supported
		if t, ok := val.(*Tok); ok {
			if (t.Class == "zero" || t.Class == "struct") && len(t.Fields) == 0 && len(t.Attr) == 0 {
				return
			}
			if t.Class == "zero" && len(t.Fields) == 0 {
				// *p = T{}: every field is reset
				for k := range a.Fields {
					delete(a.Fields, k)
				}
				delete(a.Attr, "copyOf")
				a.Attr["zeroed"] = Bool(true)
				return
			}
			// struct value copy: the destination takes over the source's fields (those not materialised yet are
			// looked up in the source on first use)
			for k, v := range t.Fields {
				a.Fields[k] = v
			}
			for k, v := range t.Attr {
				a.Attr[k] = v
			}
			a.Attr["copyOf"] = t
			return
		}
		undecided("whole-struct store of %s into %s", Show(val), a.ID)
	default:
		undecided("store through %s", Show(addr))
	}
}

func (ip *Interp) evalArgs(f *frame, com *ssa.CallCommon) ([]Value, Value) {
	var args []Value
	var recv Value
	if com.IsInvoke() {
		recv = ip.eval(f, com.Value)
		args = append(args, recv)
	}
	for _, a := range com.Args {
		args = append(args, ip.eval(f, a))
	}
	return args, recv
}

// call performs a call instruction.  For invokes args[0] is the receiver.
func (ip *Interp) call(f *frame, site ssa.CallInstruction, args []Value) Value {
	com := site.Common()
	if bi, ok := com.Value.(*ssa.Builtin); ok {
		return ip.builtin(bi.Name(), args, site)
	}
	ip.CurFn = nil
	if !com.IsInvoke() && com.StaticCallee() == nil {
		ip.CurFn = ip.eval(f, com.Value)
	}
	if ip.O != nil {
		if ret, ok := ip.O.Call(ip, site, args); ok {
			return ret
		}
	}
	if ip.IsLog != nil && ip.IsLog(com) {
		return ip.opaqueResult(com.Signature())
	}
	if com.IsInvoke() {
		// an object the interpreted code allocated itself is known by its Go type: the call is that type's method
		if tok, ok := args[0].(*Tok); ok && len(args) > 0 {
			if gt, ok := tok.Attr["gotype"].(types.Type); ok && f.fn.Prog != nil {
				if sel := f.fn.Prog.MethodSets.MethodSet(gt).Lookup(com.Method.Pkg(), com.Method.Name()); sel != nil {
					if m := f.fn.Prog.MethodValue(sel); m != nil && m.Blocks != nil && (ip.InScope == nil || ip.InScope(m) || m.Synthetic != "") && ip.depth <= ip.MaxDepth {
						return ip.CallFunction(m, args, nil)
					}
				}
			}
		}
		if gt, ok := ip.funcTypes[args[0]]; ok && f.fn.Prog != nil {
			if sel := f.fn.Prog.MethodSets.MethodSet(gt).Lookup(com.Method.Pkg(), com.Method.Name()); sel != nil {
				if m := f.fn.Prog.MethodValue(sel); m != nil && m.Blocks != nil && ip.depth <= ip.MaxDepth {
					return ip.CallFunction(m, args, nil)
				}
			}
		}
		undecided("invoke %s on %s not modelled", com.Method.Name(), Show(args[0]))
	}
	if cal := com.StaticCallee(); cal != nil {
		if _, isClosure := com.Value.(*ssa.MakeClosure); isClosure {
			cl := ip.eval(f, com.Value).(*Closure)
			return ip.CallFunction(cl.Fn, args, cl.Bind)
		}
		if cal.Blocks != nil && (ip.InScope == nil || ip.InScope(cal) || isThunk(cal)) && ip.depth <= ip.MaxDepth {
			return ip.CallFunction(cal, args, nil)
		}
		undecided("call of %s not modelled", cal)
	}
	// dynamic call of a function value
	switch fv := ip.eval(f, com.Value).(type) {
	case *Closure:
		return ip.CallFunction(fv.Fn, args, fv.Bind)
	case *ssa.Function:
		if fv.Blocks != nil && (ip.InScope == nil || ip.InScope(fv) || isThunk(fv)) {
			return ip.CallFunction(fv, args, nil)
		}
		undecided("call of %s not modelled", fv)
	default:
		undecided("dynamic call of %s", Show(fv))
	}
	return nil
}

// initStores: the package initializer (with the functions it is made of) stores into g.
func initStores(g *ssa.Global) bool {
	init := g.Pkg.Func("init")
	if init == nil {
		return false
	}
	var visit func(fn *ssa.Function, depth int) bool
	visit = func(fn *ssa.Function, depth int) bool {
		if fn == nil || depth > 2 {
			return false
		}
		for _, b := range fn.Blocks {
			for _, in := range b.Instrs {
				switch x := in.(type) {
				case *ssa.Store:
					if x.Addr == ssa.Value(g) {
						return true
					}
				case *ssa.Call:
					if cal := x.Common().StaticCallee(); cal != nil && cal.Pkg == g.Pkg && visit(cal, depth+1) {
						return true
					}
				}
			}
		}
		return false
	}
	return visit(init, 0)
}

// GlobalValue: what the interpreted code has stored in a package-level variable so far (nil if it was never touched).
func (ip *Interp) GlobalValue(g *ssa.Global) Value {
	if cell, ok := ip.globals[g].(*Cell); ok {
		return cell.V
	}
	return nil
}

// CallValue calls a closure / function value from an oracle.
func (ip *Interp) CallValue(fv Value, args ...Value) Value {
	switch x := fv.(type) {
	case *Closure:
		return ip.CallFunction(x.Fn, args, x.Bind)
	case *ssa.Function:
		return ip.CallFunction(x, args, nil)
	}
	undecided("call of non-function %s", Show(fv))
	return nil
}

func (ip *Interp) opaqueResult(sig *types.Signature) Value {
	n := sig.Results().Len()
	switch n {
	case 0:
		return nil
	case 1:
		return &Opaque{"result"}
	}
	t := make(Tuple, n)
	for i := range t {
		t[i] = &Opaque{"result"}
	}
	return t
}

func (ip *Interp) builtin(name string, args []Value, site ssa.CallInstruction) Value {
	switch name {
	case "len", "cap":
		switch x := args[0].(type) {
		case *List:
			return Int(len(x.Elems))
		case Str:
			return Int(len(x))
		case *MapVal:
			return Int(len(x.M))
		case Nil:
			return Int(0)
		case *Chan:
			if name == "cap" {
				return Int(x.Cap)
			}
			return Int(len(x.Q))
		}
		if o, isOpaque := args[0].(*Opaque); isOpaque {
			return &Opaque{"len of " + o.Why} // an unknown number (a decision taken on it leaves the model there)
		}
		if tk, isTok := args[0].(*Tok); isTok && tk.Class == "bytes" {
			return &Opaque{"len of " + tk.ID} // a byte slice standing for a rendered document
		}
		undecided("len of %s", Show(args[0]))
	case "append":
		base, ok := args[0].(*List)
		if !ok {
			if _, isNil := args[0].(Nil); isNil {
				base = &List{IsNil: true}
			} else {
				undecided("append to %s", Show(args[0]))
			}
		}
		if base.Spare {
			// a view that is shorter than the list it was cut from: appending within the room that is left writes into
			// that list's elements (Go keeps the backing array); beyond it the capacity is not known to the model
			var more []Value
			if len(args) > 1 {
				switch m := args[1].(type) {
				case *List:
					more = m.Elems
				case Nil:
				default:
					undecided("append of %s", Show(args[1]))
				}
			}
			if base.Base == nil {
				undecided("append to a slice that shares its backing array with a longer one (aliasing is not modelled)")
			}
			room := len(base.Base.Elems) - (base.Off + len(base.Elems))
			if len(more) > room {
				undecided("append to a re-sliced slice beyond the length of the slice it was cut from (its capacity is not modelled)")
			}
			for i, e := range more {
				base.Base.Elems[base.Off+len(base.Elems)+i] = e
			}
			out := &List{Elems: append(append([]Value(nil), base.Elems...), more...), View: true, Base: base.Base, Off: base.Off, Spare: len(more) < room}
			return out
		}
		out := &List{Elems: append([]Value(nil), base.Elems...), IsNil: base.IsNil}
		if len(args) > 1 {
			switch more := args[1].(type) {
			case *List:
				out.Elems = append(out.Elems, more.Elems...)
				if len(more.Elems) > 0 {
					out.IsNil = false
				}
			case Nil:
			default:
				undecided("append of %s", Show(args[1]))
			}
		}
		return out
	case "delete":
		if m, ok := args[0].(*MapVal); ok {
			delete(m.M, keyOf(args[1]))
			return nil
		}
		undecided("delete on %s", Show(args[0]))
	case "print", "println":
		return nil
	case "close":
		ch, ok := args[0].(*Chan)
		if !ok {
			undecided("close of %s", Show(args[0]))
		}
		if ch.Closed {
			panic(&GoPanic{Msg: "close of closed channel"})
		}
		ch.Closed = true
		if ip.OnChan != nil {
			ip.OnChan("close", ch)
		}
		ip.Yield()
		return nil
	case "copy":
		dst, ok1 := args[0].(*List)
		var src []Value
		switch x := args[1].(type) {
		case *List:
			src = x.Elems
		case Str:
			undecided("copy from a string")
		default:
			undecided("copy from %s", Show(args[1]))
		}
		if !ok1 {
			undecided("copy into %s", Show(args[0]))
		}
		n := len(src)
		if len(dst.Elems) < n {
			n = len(dst.Elems)
		}
		for i := 0; i < n; i++ {
			if dst.View {
				if dst.Base == nil || dst.Off+i >= len(dst.Base.Elems) {
					undecided("copy into a re-sliced slice whose base the model lost")
				}
				dst.Base.Elems[dst.Off+i] = src[i]
			}
			dst.Elems[i] = src[i]
		}
		return Int(int64(n))
	case "ssa:wrapnilchk":
		// the receiver check of a promoted / pointer-receiver wrapper method
		if _, isNil := args[0].(Nil); isNil {
			panic(&GoPanic{Msg: "value method called using nil pointer"})
		}
		return args[0]
	}
	undecided("builtin %s", name)
	return nil
}

func (ip *Interp) step(f *frame, v ssa.Value) Value {
	switch x := v.(type) {
	case *ssa.Alloc:
		et := x.Type().Underlying().(*types.Pointer).Elem()
		switch u := et.Underlying().(type) {
		case *types.Struct:
			t := ip.Fresh("alloc:" + x.Comment)
			t.Attr["zeroed"] = Bool(true) // a freshly allocated struct: unset fields read as zero values
			t.Attr["gotype"] = x.Type()   // the dynamic type of the object when it is boxed into an interface
			return t
		case *types.Array:
			a := &Array{}
			for i := int64(0); i < u.Len(); i++ {
				a.Elems = append(a.Elems, ip.ZeroOf(u.Elem()))
			}
			return a
		}
		return &Cell{V: ip.ZeroOf(et), Elem: et}
	case *ssa.FieldAddr:
		base := ip.eval(f, x.X)
		st := x.X.Type().Underlying().(*types.Pointer).Elem().Underlying().(*types.Struct)
		fld := st.Field(x.Field)
		obj := ip.objOf(base, x.X.Type().Underlying().(*types.Pointer).Elem())
		_, isStruct := fld.Type().Underlying().(*types.Struct)
		_, has := obj.Fields[fld.Name()]
		flat := fld.Embedded() && isStruct && !has
		if !flat && isStruct && !has && partOfHolder(x.X.Type().Underlying().(*types.Pointer).Elem(), st, x.Field) {
			// a part of the holder's state kept in a by-value struct of the holder's own package: its fields are
			// looked up in the holder (whoever set the holder up by field names need not know about the part)
			flat = true
		}
		return &FieldRef{Obj: obj, Name: fld.Name(), Typ: fld.Type(), Flat: flat, Part: flat && !fld.Embedded(), Owner: x.X.Type().Underlying().(*types.Pointer).Elem()}
	case *ssa.Field:
		base := ip.eval(f, x.X)
		st := x.X.Type().Underlying().(*types.Struct)
		fld := st.Field(x.Field)
		obj, ok := base.(*Tok)
		if !ok {
			undecided("field of %s", Show(base))
		}
		if _, isStruct := fld.Type().Underlying().(*types.Struct); isStruct && fld.Embedded() {
			if _, has := obj.Fields[fld.Name()]; !has {
				return obj // flattened embedded struct
			}
		}
		return ip.LoadField(obj, fld.Name(), fld.Type())
	case *ssa.IndexAddr:
		base := ip.arrayField(ip.eval(f, x.X))
		idx, ok := ip.eval(f, x.Index).(Int)
		if !ok {
			undecided("non-constant index in %s", f.fn)
		}
		switch b := base.(type) {
		case *Array:
			if int(idx) < 0 || int(idx) >= len(b.Elems) {
				panic(&GoPanic{Msg: "index out of range"})
			}
			return &ElemRef{Arr: b, I: int(idx)}
		case *List:
			if int(idx) < 0 || int(idx) >= len(b.Elems) {
				panic(&GoPanic{Msg: fmt.Sprintf("index out of range [%d] with length %d", idx, len(b.Elems))})
			}
			return &ElemRef{List: b, I: int(idx)}
		}
		undecided("index of %s", Show(base))
	case *ssa.Index:
		base := ip.eval(f, x.X)
		idx, ok := ip.eval(f, x.Index).(Int)
		if !ok {
			undecided("non-constant index")
		}
		if b, ok := base.(*List); ok {
			if int(idx) < 0 || int(idx) >= len(b.Elems) {
				panic(&GoPanic{Msg: "index out of range"})
			}
			return b.Elems[idx]
		}
		if str, ok := base.(Str); ok {
			if int(idx) < 0 || int(idx) >= len(str) {
				panic(&GoPanic{Msg: fmt.Sprintf("index out of range [%d] with length %d", idx, len(str))})
			}
			return Int(int64(str[idx]))
		}
		undecided("index of %s", Show(base))
	case *ssa.Lookup:
		if str, isStr := ip.eval(f, x.X).(Str); isStr {
			// s[i]: the byte at i
			i, ok := ip.eval(f, x.Index).(Int)
			if !ok {
				undecided("index of a text at an unknown position")
			}
			if int(i) < 0 || int(i) >= len(str) {
				panic(&GoPanic{Msg: fmt.Sprintf("index out of range [%d] with length %d", i, len(str))})
			}
			return Int(int64(str[i]))
		}
		m, ok := ip.eval(f, x.X).(*MapVal)
		if !ok {
			undecided("lookup in %s", Show(ip.eval(f, x.X)))
		}
		val, found := m.M[keyOf(ip.eval(f, x.Index))]
		if !found {
			val = ip.ZeroOf(x.X.Type().Underlying().(*types.Map).Elem())
		}
		if x.CommaOk {
			return Tuple{val, Bool(found)}
		}
		return val
	case *ssa.UnOp:
		a := ip.eval(f, x.X)
		switch x.Op {
		case token.MUL:
			return ip.load(a, x.Type())
		case token.NOT:
			b, ok := a.(Bool)
			if !ok {
				undecided("! of %s", Show(a))
			}
			return Bool(!bool(b))
		case token.SUB:
			if i, ok := a.(Int); ok {
				return Int(-int64(i))
			}
		case token.ARROW:
			ch, ok := a.(*Chan)
			if !ok {
				undecided("receive from %s", Show(a))
			}
			if len(ch.Q) == 0 && !ch.Closed {
				ch.Receivers++
				func() {
					defer func() { ch.Receivers-- }()
					ip.Block(func() bool { return len(ch.Q) > 0 || ch.Closed }, "a receive that blocks until somebody sends")
				}()
			}
			if len(ch.Q) > 0 {
				v := ch.Q[0]
				ch.Q = ch.Q[1:]
				if ip.OnChan != nil {
					ip.OnChan("recv", ch)
				}
				ip.Yield()
				if x.CommaOk {
					return Tuple{v, Bool(true)}
				}
				return v
			}
			if x.CommaOk {
				return Tuple{ip.ZeroOf(ch.Elem), Bool(false)}
			}
			return ip.ZeroOf(ch.Elem)
		}
		undecided("unary %s of %s", x.Op, Show(a))
	case *ssa.BinOp:
		return ip.binop(x.Op, ip.eval(f, x.X), ip.eval(f, x.Y), f)
	case *ssa.Extract:
		t, ok := ip.eval(f, x.Tuple).(Tuple)
		if !ok || x.Index >= len(t) {
			undecided("extract #%d from %s", x.Index, Show(ip.eval(f, x.Tuple)))
		}
		return t[x.Index]
	case *ssa.Call:
		args, _ := ip.evalArgs(f, x.Common())
		if ip.lenient > 0 && ip.depth == ip.lenient {
			// inside a package initializer: other packages' initializers are skipped, and an initializer
			// expression the model cannot evaluate leaves an opaque value in its variable
			if cal := x.Common().StaticCallee(); cal != nil && cal.Name() == "init" && cal.Signature.Recv() == nil && cal.Pkg != f.fn.Pkg {
				return nil
			}
			var ret Value
			func() {
				defer func() {
					if r := recover(); r != nil {
						if _, ok := r.(*Undecided); ok {
							ret = ip.opaqueResult(x.Common().Signature())
							return
						}
						if _, ok := r.(*GoPanic); ok {
							ret = ip.opaqueResult(x.Common().Signature())
							return
						}
						panic(r)
					}
				}()
				ret = ip.call(f, x, args)
			}()
			return ret
		}
		ret := ip.call(f, x, args)
		return ret
	case *ssa.MakeClosure:
		cl := &Closure{Fn: x.Fn.(*ssa.Function)}
		for _, b := range x.Bindings {
			cl.Bind = append(cl.Bind, ip.eval(f, b))
		}
		return cl
	case *ssa.MakeInterface:
		v := ip.eval(f, x.X)
		if l, ok := v.(*List); ok {
			l.GoType = x.X.Type()
		}
		switch v.(type) {
		case *ssa.Function, *Closure, Str, Int, Bool:
			// a function, text or number boxed under a named type with methods: its methods are that type's
			if n, isNamed := x.X.Type().(*types.Named); isNamed && n.NumMethods() > 0 {
				if ip.funcTypes == nil {
					ip.funcTypes = map[Value]types.Type{}
				}
				ip.funcTypes[v] = n
			}
		}
		if t, ok := v.(*Tok); ok {
			if _, isStruct := x.X.Type().Underlying().(*types.Struct); isStruct && t.Attr["gotype"] != nil {
				t.Attr["boxed"] = x.X.Type() // a struct the code built and boxed by value: its dynamic type
			}
		}
		return v
	case *ssa.ChangeInterface:
		return ip.eval(f, x.X)
	case *ssa.ChangeType:
		return ip.eval(f, x.X)
	case *ssa.Convert:
		return ip.eval(f, x.X)
	case *ssa.MakeSlice:
		n, ok := ip.eval(f, x.Len).(Int)
		if !ok {
			undecided("make slice with unknown length")
		}
		l := &List{}
		et := x.Type().Underlying().(*types.Slice).Elem()
		for i := 0; i < int(n); i++ {
			l.Elems = append(l.Elems, ip.ZeroOf(et))
		}
		return l
	case *ssa.MakeMap:
		return &MapVal{M: map[string]Value{}}
	case *ssa.Slice:
		base := ip.arrayField(ip.eval(f, x.X))
		lo, hi := 0, -1
		if x.Low != nil {
			i, ok := ip.eval(f, x.Low).(Int)
			if !ok {
				undecided("slice bound")
			}
			lo = int(i)
		}
		if x.High != nil {
			i, ok := ip.eval(f, x.High).(Int)
			if !ok {
				undecided("slice bound")
			}
			hi = int(i)
		}
		var elems []Value
		switch b := base.(type) {
		case *Array:
			elems = b.Elems
		case *List:
			elems = b.Elems
		case Str:
			if hi < 0 {
				hi = len(b)
			}
			if lo > hi || hi > len(b) {
				panic(&GoPanic{Msg: "slice bounds out of range"})
			}
			return Str(string(b)[lo:hi])
		default:
			undecided("slice of %s", Show(base))
		}
		if hi < 0 {
			hi = len(elems)
		}
		if lo < 0 || lo > hi || hi > len(elems) {
			panic(&GoPanic{Msg: "slice bounds out of range"})
		}
		_, fromList := base.(*List)
		if al, isAl := x.X.(*ssa.Alloc); isAl && !fromList && al.Referrers() != nil && len(*al.Referrers()) == 1 && lo == 0 {
			// make([]T, n, c) with constant bounds: an array nobody else can reach, cut to its length - the room
			// behind it is the slice's own, appending into it shows nowhere else
			return &List{Elems: append([]Value(nil), elems[:hi]...)}
		}
		out := &List{Elems: append([]Value(nil), elems[lo:hi]...), View: fromList && len(elems) > 0, Spare: hi < len(elems)}
		if bl, isL := base.(*List); isL && out.View {
			out.Base, out.Off = bl, lo
			if bl.Base != nil {
				out.Base, out.Off = bl.Base, bl.Off+lo
			}
		}
		return out
	case *ssa.TypeAssert:
		val := ip.eval(f, x.X)
		var ok, known bool
		if _, isNil := val.(Nil); isNil {
			ok, known = false, true
		} else if it, isIface := x.AssertedType.Underlying().(*types.Interface); isIface && it.NumMethods() == 0 && isObject(val) {
			ok, known = true, true // every non-nil value is an `any`
		} else if ip.O != nil {
			ok, known = ip.O.TypeTest(ip, val, x.AssertedType)
		}
		if !known {
			// an object allocated by the interpreted code carries its Go type
			if tok, isTok := val.(*Tok); isTok {
				if gt, has := tok.Attr["gotype"].(types.Type); has {
					if it, isIface := x.AssertedType.Underlying().(*types.Interface); isIface {
						ok, known = types.Implements(gt, it), true
					} else {
						ok, known = types.Identical(gt, x.AssertedType), true
					}
				}
			}
		}
		if !known {
			undecided("type test %s.(%s) not modelled", Show(val), x.AssertedType)
		}
		if x.CommaOk {
			if ok {
				return Tuple{val, Bool(true)}
			}
			return Tuple{ip.ZeroOf(x.AssertedType), Bool(false)}
		}
		if !ok {
			panic(&GoPanic{Msg: "interface conversion failed: " + Show(val) + " is not " + x.AssertedType.String()})
		}
		return val
	case *ssa.Range:
		if str, isStr := ip.eval(f, x.X).(Str); isStr {
			return &StrIter{S: string(str)} // range over a text: its runes with their byte positions
		}
		m, ok := ip.eval(f, x.X).(*MapVal)
		if !ok {
			undecided("range over %s in %s", Show(ip.eval(f, x.X)), f.fn)
		}
		mt, isMap := x.X.Type().Underlying().(*types.Map)
		if !isMap {
			undecided("range over a non-map in %s", f.fn)
		}
		if b, isB := mt.Key().Underlying().(*types.Basic); !isB || b.Info()&types.IsString == 0 {
			undecided("range over a map with non-string keys in %s", f.fn)
		}
		it := &MapIter{M: m}
		for k := range m.M {
			it.Keys = append(it.Keys, k)
		}
		sort.Strings(it.Keys)
		return it
	case *ssa.Next:
		if si, isStr := ip.eval(f, x.Iter).(*StrIter); isStr {
			if si.I >= len(si.S) {
				return Tuple{Bool(false), Int(0), Int(0)}
			}
			r, w := utf8.DecodeRuneInString(si.S[si.I:])
			at := si.I
			si.I += w
			return Tuple{Bool(true), Int(int64(at)), Int(int64(r))}
		}
		it, ok := ip.eval(f, x.Iter).(*MapIter)
		if !ok {
			undecided("next on %s in %s", Show(ip.eval(f, x.Iter)), f.fn)
		}
		for it.I < len(it.Keys) {
			k := it.Keys[it.I]
			it.I++
			if val, present := it.M.M[k]; present {
				return Tuple{Bool(true), Str(k), val}
			}
		}
		return Tuple{Bool(false), Str(""), Nil{}}
	case *ssa.MakeChan:
		n, ok := ip.eval(f, x.Size).(Int)
		if !ok {
			undecided("channel of unknown capacity")
		}
		return &Chan{Cap: int(n), Elem: x.Type().Underlying().(*types.Chan).Elem()}
	case *ssa.Select:
		return ip.selectOp(f, x)
	}
	undecided("value %T not modelled in %s", v, f.fn)
	return nil
}

// objOf: the token behind a pointer-to-struct value (a token itself, or the struct stored behind a reference).
func (ip *Interp) objOf(base Value, structT types.Type) *Tok {
	switch b := base.(type) {
	case *Tok:
		return b
	case *FieldRef:
		if b.Flat {
			if _, has := b.Obj.Fields[b.Name]; !has {
				return b.Obj
			}
		}
		// address of an embedded struct field: the struct lives in the field
		v := ip.LoadField(b.Obj, b.Name, structT)
		if t, ok := v.(*Tok); ok {
			return t
		}
	case *Cell:
		if t, ok := b.V.(*Tok); ok {
			return t
		}
	case *ElemRef:
		var v Value
		if b.Arr != nil {
			v = b.Arr.Elems[b.I]
		} else {
			v = b.List.Elems[b.I]
		}
		if t, ok := v.(*Tok); ok {
			return t
		}
	case Nil:
		panic(&GoPanic{Msg: "nil pointer dereference"})
	}
	undecided("field access on %s", Show(base))
	return nil
}

func (ip *Interp) binop(op token.Token, a, b Value, f *frame) Value {
	switch op {
	case token.EQL, token.NEQ:
		eq, known := Equal(a, b)
		if !known {
			undecided("comparison of %s and %s in %s", Show(a), Show(b), f.fn)
		}
		if op == token.NEQ {
			eq = !eq
		}
		return Bool(eq)
	}
	if x, ok := a.(Int); ok {
		if y, ok := b.(Int); ok {
			switch op {
			case token.ADD:
				return x + y
			case token.SUB:
				return x - y
			case token.MUL:
				return x * y
			case token.LSS:
				return Bool(x < y)
			case token.LEQ:
				return Bool(x <= y)
			case token.GTR:
				return Bool(x > y)
			case token.GEQ:
				return Bool(x >= y)
			case token.SHL:
				return x << uint(y)
			}
		}
	}
	if x, ok := a.(Str); ok {
		if y, ok := b.(Str); ok {
			switch op {
			case token.ADD:
				return x + y
			case token.LSS:
				return Bool(x < y)
			}
		}
	}
	if x, ok := a.(Bool); ok {
		if y, ok := b.(Bool); ok {
			switch op {
			case token.AND, token.LAND:
				return Bool(bool(x) && bool(y))
			case token.OR, token.LOR:
				return Bool(bool(x) || bool(y))
			}
		}
	}
	if op == token.ADD {
		// string concatenation with a part the model does not know literally (a name token, a rendered value): text
		_, sa := a.(Str)
		_, sb := b.(Str)
		_, oa := a.(*Opaque)
		_, ob := b.(*Opaque)
		if (sa || oa) && (sb || ob) || (sa || oa) && isNameLike(b) || (sb || ob) && isNameLike(a) {
			return &Opaque{"text"}
		}
	}
	undecided("binary %s on %s, %s in %s", op, Show(a), Show(b), f.fn)
	return nil
}

// isNameLike: a token that stands for a string-typed input (a component name, a key).
func isNameLike(v Value) bool {
	t, ok := v.(*Tok)
	return ok && (t.Class == "key" || t.Class == "name" || t.Class == "text")
}

// Equal compares two abstract values; known=false if the model cannot tell.
func Equal(a, b Value) (eq, known bool) {
	switch x := a.(type) {
	case Nil:
		switch y := b.(type) {
		case Nil:
			return true, true
		case *Tok, *Closure, *ssa.Function, Str, Int, Bool:
			return false, true
		case *List:
			return y.IsNil && len(y.Elems) == 0, true
		case *MapVal:
			return y.IsNil, true
		}
	case *Tok:
		switch y := b.(type) {
		case *Tok:
			return x == y, true
		case Nil:
			return false, true
		}
	case Bool:
		if y, ok := b.(Bool); ok {
			return x == y, true
		}
		if _, ok := b.(Nil); ok {
			return false, true // a boxed scalar is a non-nil interface
		}
	case Int:
		if y, ok := b.(Int); ok {
			return x == y, true
		}
		if _, ok := b.(Nil); ok {
			return false, true
		}
	case Str:
		if y, ok := b.(Str); ok {
			return x == y, true
		}
		if _, ok := b.(Nil); ok {
			return false, true
		}
		if _, ok := b.(*Tok); ok {
			return false, true // a literal never equals a symbolic string token
		}
	case *List:
		if y, ok := b.(*List); ok {
			// slices compare only with the nil literal: one side is the nil constant
			xn, yn := x.IsNil && len(x.Elems) == 0, y.IsNil && len(y.Elems) == 0
			if xn || yn {
				return xn && yn, true
			}
		}
		if _, ok := b.(Nil); ok {
			return x.IsNil && len(x.Elems) == 0, true
		}
	case *MapVal:
		if _, ok := b.(Nil); ok {
			return x.IsNil, true
		}
		if y, ok := b.(*MapVal); ok && (x.IsNil || y.IsNil) {
			// maps compare only with the nil literal: one side is the nil constant
			return x.IsNil && y.IsNil, true
		}
	case *Closure, *ssa.Function:
		if _, ok := b.(Nil); ok {
			return false, true
		}
	}
	if _, ok := b.(Str); ok {
		if _, ok := a.(*Tok); ok {
			return false, true
		}
	}
	return false, false
}

// isThunk: a synthetic forwarder the compiler made for a method expression or a bound method value.
func isThunk(fn *ssa.Function) bool {
	return strings.HasPrefix(fn.Synthetic, "thunk for") || strings.HasPrefix(fn.Synthetic, "bound method wrapper")
}
