package main

import (
	"fmt"
	"go/types"

	"golang.org/x/tools/go/ssa"

	"iocvet/internal/core"
)

// census prints unordered iteration sources (development aid).
func census(repo string) {
	c, err := core.Load(repo, "quick")
	if err != nil {
		panic(err)
	}
	for _, fn := range c.Scope {
		for _, b := range fn.Blocks {
			for _, in := range b.Instrs {
				switch x := in.(type) {
				case *ssa.Range:
					if _, ok := x.X.Type().Underlying().(*types.Map); ok {
						fmt.Println("MAPRANGE", core.FnName(fn), c.Pos(x.Pos()), x.X.Type())
					}
				case ssa.CallInstruction:
					cal := core.Callee(x.Common())
					name := ""
					if cal != nil {
						name = cal.String()
					} else if x.Common().IsInvoke() {
						name = x.Common().Method.FullName()
					}
					switch {
					case name == "(*sync.Map).Range", cal != nil && cal.Name() == "Range" && core.InScopePath(pkgPath(cal)),
						cal != nil && cal.Name() == "ForEach" && core.InScopePath(pkgPath(cal)),
						x.Common().IsInvoke() && (x.Common().Method.Name() == "ForEach" || x.Common().Method.Name() == "ToArray" || x.Common().Method.Name() == "GetSingletonNames" || x.Common().Method.Name() == "GetMetas" || x.Common().Method.Name() == "GetRegisteredComponents"):
						fmt.Println("CALL", core.FnName(fn), c.Pos(x.Pos()), name)
					}
				}
			}
		}
	}
}

func pkgPath(f *ssa.Function) string {
	if p := core.PkgOf(f); p != nil {
		return p.Pkg.Path()
	}
	return ""
}
