// iocvet decides the structural clauses of the ioc properties from the type-checked source of /repo.
// Nothing of /repo is executed.
package main

import (
	"encoding/json"
	"flag"
	"fmt"
	"os"
	"path/filepath"
	"runtime/pprof"
	"strconv"
	"time"

	"iocvet/internal/core"
	"iocvet/internal/rules"
)

func main() {
	if pf := os.Getenv("IOCVET_HEAPPROF"); pf != "" {
		// development aid: a heap profile after 40 s
		go func() {
			time.Sleep(40 * time.Second)
			if f, err := os.Create(pf); err == nil {
				pprof.WriteHeapProfile(f)
				f.Close()
			}
		}()
	}
	repo := flag.String("repo", "/repo", "repository root")
	verif := flag.String("verif", "/verif", "verification directory (evidence, known findings)")
	tier := flag.String("tier", "quick", "quick|thorough")
	only := flag.String("rule", "", "evaluate only obligations whose rule id has this prefix (replay)")
	noEvidence := flag.Bool("no-evidence", false, "do not write evidence (used on scratch variants)")
	variant := flag.String("variant", "", "development aid: a scratch copy of the repository whose changed files are analysed as an overlay of -repo")
	flag.Parse()
	args := flag.Args()
	if len(args) < 1 {
		fmt.Fprintln(os.Stderr, "usage: iocvet [flags] <property>|replay <file>|mutants <property|all>|list")
		os.Exit(2)
	}
	seed := int64(0)
	if s := os.Getenv("VERIF_SEED"); s != "" {
		seed, _ = strconv.ParseInt(s, 10, 64)
	}
	switch args[0] {
	case "census":
		census(*repo)
		return
	case "all":
		os.Exit(runAll(*repo, *variant, *verif, *tier))
	case "list":
		for _, id := range rules.IDs() {
			fmt.Println(id)
		}
		return
	case "replay":
		if len(args) < 2 {
			os.Exit(2)
		}
		b, err := os.ReadFile(args[1])
		if err != nil {
			fmt.Fprintln(os.Stderr, err)
			os.Exit(2)
		}
		var rp struct {
			Property   string
			Obligation core.Obligation
		}
		if err := json.Unmarshal(b, &rp); err != nil {
			fmt.Fprintln(os.Stderr, err)
			os.Exit(2)
		}
		os.Exit(run(*repo, *verif, *tier, rp.Property, rp.Obligation.Rule, seed, true))
	case "mutants":
		which := "all"
		if len(args) > 1 {
			which = args[1]
		}
		os.Exit(rules.RunMutants(*repo, *verif, which, *tier))
	}
	if *variant != "" {
		variantDir = *variant
		*noEvidence = true
	}
	os.Exit(run(*repo, *verif, *tier, args[0], *only, seed, *noEvidence))
}

// variantDir: set by -variant (development aid, never by a registered command).
var variantDir string

func run(repo, verif, tier, prop, only string, seed int64, noEvidence bool) (code int) {
	if rules.Lookup(prop) == nil {
		fmt.Fprintln(os.Stderr, "unknown property", prop)
		return 2
	}
	rep, err := rules.RunPropertyVariant(repo, variantDir, tier, prop, seed)
	if err != nil {
		fmt.Fprintln(os.Stderr, "iocvet: cannot analyse:", err)
		return 2
	}
	if only != "" {
		var keep []*core.Obligation
		for _, o := range rep.Obls {
			if len(o.Rule) >= len(only) && o.Rule[:len(only)] == only {
				keep = append(keep, o)
			}
		}
		rep.Obls = keep
	}
	findings, err := core.LoadFindings(filepath.Join(verif, "known_findings.json"))
	if err != nil {
		fmt.Fprintln(os.Stderr, "iocvet: known_findings.json:", err)
		return 2
	}
	selfOK := true
	if !noEvidence && only == "" && os.Getenv("IOCVET_NO_SELFTEST") == "" {
		selfOK = rules.Selftest(repo, verif, rep, tier)
	}
	out := verif
	if noEvidence {
		dir, _ := os.MkdirTemp("", "iocvet-scratch-")
		defer os.RemoveAll(dir)
		out = dir
	}
	code = rep.Finish(out, findings)
	if code == 0 && !selfOK {
		fmt.Fprintln(os.Stderr, "iocvet: the checker's own positive controls failed (see above): no verdict")
		return 2
	}
	return code
}

// runAll loads the program once and evaluates every property on it (development aid for scratch variants):
// prints one line per unheld obligation that is not a listed known finding.
func runAll(repo, variant, verif, tier string) int {
	ctx, err := core.LoadVariant(repo, variant, tier)
	if err != nil {
		fmt.Fprintln(os.Stderr, "iocvet: cannot analyse:", err)
		return 2
	}
	findings, _ := core.LoadFindings(filepath.Join(verif, "known_findings.json"))
	known := map[string]bool{}
	for _, f := range findings {
		if f.Status == "known" {
			known[f.Key] = true
		}
	}
	bad := 0
	for _, id := range rules.IDs() {
		rep := rules.RunOn(ctx, id)
		seen := map[string]bool{}
		for _, o := range rep.Obls {
			if o.Verdict == core.Held || known[o.Key()] || seen[o.Key()] {
				continue
			}
			seen[o.Key()] = true
			bad++
			fmt.Printf("== %s %s rule=%s construct=%q at=%s: %s\n", id, o.Verdict, o.Rule, o.Construct, o.Pos, o.Detail)
		}
	}
	if bad > 0 {
		return 1
	}
	return 0
}
