#!/bin/sh
# Developer aid: run checks against /repo + a patch, in a scratch copy (removed afterwards).
# usage: ./seedcheck.sh <patch.diff> [property ...]   (default: all properties, program loaded once)
cd "$(dirname "$0")" || exit 2
P=$(readlink -f "$1"); shift
D=$(mktemp -d /tmp/seedchk.XXXXXX)
rsync -a --exclude .git /repo/ "$D"/ || exit 2
(cd "$D" && patch -p1 -s < "$P") || { echo "patch does not apply"; rm -rf "$D"; exit 2; }
export GOFLAGS=-mod=mod GOPROXY=off GOSUMDB=off GOWORK=off GOTOOLCHAIN=local IOCVET_NO_SELFTEST=1
if [ -z "$*" ]; then
  ./bin/iocvet -repo /repo -variant "$D" -verif "$PWD" all 2>&1 | sed "s#$D/##g" | cut -c1-400
else
  for p in "$@"; do
    out=$(./bin/iocvet -repo /repo -variant "$D" -verif "$PWD" -no-evidence "$p" 2>&1); rc=$?
    if [ $rc -ne 0 ]; then echo "== $p exit=$rc"; echo "$out" | grep -E '^(VIOLATED|UNDECIDED)' | sed "s#$D/##g" | cut -c1-400; fi
  done
fi
rm -rf "$D"
