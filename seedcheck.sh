#!/bin/sh
# Developer aid: run checks against /repo + a patch, in a scratch copy (removed afterwards).
# usage: ./seedcheck.sh <patch.diff> [property ...]   (default: all properties)
cd "$(dirname "$0")" || exit 2
P="$1"; shift
D=$(mktemp -d /tmp/seedchk.XXXXXX)
rsync -a --exclude .git /repo/ "$D"/ || exit 2
(cd "$D" && patch -p1 -s < "$P") || { echo "patch does not apply"; rm -rf "$D"; exit 2; }
PROPS="$*"; [ -z "$PROPS" ] && PROPS=$(./bin/iocvet list)
export GOFLAGS=-mod=mod GOPROXY=off GOSUMDB=off GOWORK=off GOTOOLCHAIN=local IOCVET_NO_SELFTEST=1
for p in $PROPS; do
  out=$(./bin/iocvet -repo "$D" -verif "$PWD" -no-evidence "$p" 2>&1); rc=$?
  if [ $rc -ne 0 ]; then echo "== $p exit=$rc"; echo "$out" | grep -E '^(VIOLATED|UNDECIDED)' | sed "s#$D/##g" | cut -c1-400; fi
done
rm -rf "$D"
