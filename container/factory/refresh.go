package factory

import (
	"github.com/go-kid/ioc/definition"
	"github.com/go-kid/ioc/util/sort2"
)

// Refresh creates every registered component that is not marked as lazy, in
// ascending order of the component names.
func (f *defaultFactory) Refresh() error {
	names := f.eagerComponentNames()
	sort2.Slice(names, ascendingNames)

	for idx := 0; idx < len(names); idx++ {
		if err := f.refreshComponent(names[idx]); err != nil {
			return err
		}
	}

	f.logger().Info("refresh components finished")
	return nil
}

// eagerComponentNames lists the names of all definitions whose component does
// not implement definition.LazyInit, in registry order.
func (f *defaultFactory) eagerComponentNames() []string {
	var names []string
	for _, meta := range f.definitionRegistry.GetMetas() {
		if _, lazy := meta.Raw.(definition.LazyInit); lazy {
			continue
		}
		names = append(names, meta.Name())
	}
	return names
}

func (f *defaultFactory) refreshComponent(name string) error {
	f.logger().Tracef("refresh component with name '%s'", name)
	_, err := f.doGetComponent(name)
	return err
}

func ascendingNames(left, right string) bool {
	return left < right
}
