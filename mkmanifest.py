#!/usr/bin/env python3
"""Regenerates MANIFEST.json from the table below (so that it is always schema-valid).
Usage: python3 mkmanifest.py            -- properties whose rules file exists in tool/internal/rules are claimed."""
import json, os, subprocess, sys

HERE = os.path.dirname(os.path.abspath(__file__))

# id -> (technique, level text, level note, design ref)
P = {
 "C01": ("provenance + dominance + who-may-call rules over SSA; registry typestate (abstract interpretation)",
         "Structural necessary conditions of instance sharing decided on all paths: injected values come only from the singleton cache, cache-before-create, creator exclusivity, injection aliases Meta.Value, Meta identity fields immutable, one definition per name. Pointer identity of a concrete run is not decided.",
         "reflect.Value.Set aliases pointers; user-supplied registries/factories out of scope; paper argument links the rules to identity", "§5 C01"),
 "C02": ("must-pass-through / control-dependence / SCC / loop-form analyses over SSA and AST",
         "Premises of the termination argument decided on all paths: early factory registered before any dependency is resolved, exposure condition not narrowed, every creation cycle passes the cache accessor, self filter precedes injection, loops in the creation path are bounded forms. Success of a concrete graph is not decided.",
         "user callbacks terminate; reflect semantics", "§5 C02"),
 "C03": ("decision-table abstract interpretation of the early-exposure tail + pairing rules",
         "Decides that the creator's tail returns the early reference when nothing wrapped and an error when a finished holder keeps a different version, that injection records the holder on the injected version, and that the early factory chains GetEarlyBeanReference once. Does not decide substitutions invisible to the container.",
         "post-processors substitute only at the hooks the container offers", "§5 C03"),
 "C04": ("typestate: abstract interpretation of the registry methods + exhaustive exploration of single-name histories",
         "The registry's method bodies are interpreted over per-name abstract cells and every history a factory can issue for one name (bounded tokens, explored to a fixpoint) is checked against observational assertions A1-A5.",
         "sync.Map primitives are atomic and behave as a map; custom registries out of scope", "§5 C04"),
 "C05": ("event-reach summaries + dominance between role-classified call sites",
         "Stage order, must-stages, at-most-once and the lazy filter decided as dominance / control-dependence facts in the four role functions on all paths.",
         "dependency edges the container cannot see are out of scope", "§5 C05"),
 "C06": ("option/kind table, predicate shape, full-scan and bijection rules over SSA; And/Or decision tables",
         "Decides that candidate queries use the predicate matching the field kind, the predicates test identity/Implements/method presence, the registry scan is complete, and the slice fill is a bijection.",
         "reflect semantics", "§5 C06"),
 "C07": ("keyed-lookup, naming-agreement, store-dominance and guard-before-Set rules over SSA",
         "Decides the by-name branch, key agreement between registration and lookup, duplicate rejection, assignability guard before reflect Set and nil-freedom of candidate lists.",
         "reflect semantics; reflectx.Id naming", "§5 C07"),
 "C08": ("sibling loop-independence rule + decision-table abstract interpretation of the narrowing function",
         "Every PostProcessProperties loop is left early only with an error; the narrowing function is interpreted on every candidate list up to the bound over {primary, unnamed, named} x qualifier classes x self and compared with the specification rows, including permutation invariance.",
         "type tests answer from static class; lists up to the stated bound", "§5 C08"),
 "C09": ("error-discipline idiom classifier over every error-returning call reachable from App.Run (CHA) + required/optional branch tables",
         "No error on the way to Run's result is dropped except at enumerated, reasoned sites; missing-value branches return an error iff required.",
         "user callbacks do not panic or hang", "§5 C09"),
 "C10": ("census of unordered iteration sources against a frozen classification table + guards",
         "Every unordered source in scope is sorted before use or consumed order-insensitively; candidate selection is permutation-invariant and self-free.",
         "user post-processors are order-insensitive", "§5 C10"),
 "C11": ("dominance / guard rules on the scanner, reflect-writer census (CHA), sibling tag-gate rule",
         "Decides the frame condition as who-may-write and under which guards, and that embedded and direct fields are indistinguishable downstream.",
         "reflect semantics", "§5 C11"),
 "C12": ("decision-table abstract interpretation of the sorter on all short participant lists + provenance of every invoke loop",
         "The sorter is interpreted on every participant list up to the bound and compared with the contract; sort2.Slice's index mapping and the sorted provenance of every participant loop are decided on all paths.",
         "sort.Slice sorts w.r.t. its comparator; Order() is pure", "§5 C12"),
 "C13": ("dominance / single-site / loop-exit rules over SSA",
         "Runner invocation is dominated by the nil-error edge of refresh, happens at one synchronous site in a forward range over the sorted slice, and stops at the first error.",
         "runner bodies are user code", "§5 C13"),
 "C14": ("WaitGroup protocol typestate over SSA (Add/go/Done/Wait pairing, post-dominance)",
         "Close fan-out: Add(len) before a range over the same slice, exactly one go per iteration calling Close once on its parameter with Done deferred, Wait post-dominates the loop, no early exit depends on a Close error.",
         "sync.WaitGroup semantics", "§5 C14"),
 "C15": ("merge-not-replace / add-not-replace who-calls rules, constant evaluation of loader classes",
         "Loader loop order and early exit, Binder.SetConfig reaches MergeConfig, adding options reach AddLoaders and not SetLoaders, AddLoaders appends, FileLoader's class/order constants.",
         "viper's deep merge is trusted", "§5 C15"),
 "C16": ("loop-form classification (AST+SSA) + presence decision table by abstract interpretation",
         "Every loop reachable from the placeholder helper has a bounded form; the default is used exactly on nil / empty map / empty list; key/default split at the first colon; result committed to TagVal.",
         "regexp and viper terminate", "§5 C16"),
 "C17": ("field-sensitive value-flow (provenance) rules",
         "Prefix path hands Binder.Get's value to Unmarshall unchanged; no FormatAny -> text -> ParseAny re-typing chain other than the recorded known finding.",
         "mapstructure conversion is trusted", "§5 C17"),
 "C18": ("constant evaluation of processor (class, Order) + error-flow rules",
         "Strict stage-rank inequalities between the built-in processors under the C12 contract; expression and validation methods propagate every error and act on the substituted / bound value.",
         "expr and validator semantics are trusted", "§5 C18"),
 "C19": ("guarded-indexing table, key-normalisation sibling rule, constant rules",
         "Every index/slice expression in the tag-parsing call tree is guarded; all TagArg map keys pass through formatArgType; block-aware split variants are used; IsRequired is exactly !Has(required,false).",
         "strings2 split/index behave as documented", "§5 C19"),
 "C20": ("goroutine census + write-ownership (effect) analysis + linearization-point rule on the concurrent utilities",
         "Every write reachable from a goroutine body targets goroutine-private, key-partitioned or lock-protected memory; WaitGroup protocol; each utility method performs at most one mutating primitive of the right kind and never check-then-act.",
         "sync.Map/sync.Mutex semantics; external callees do not write shared memory they were not given", "§5 C20"),
}

def main():
    rules_dir = os.path.join(HERE, "tool", "internal", "rules")
    built = sorted(k for k in P if os.path.exists(os.path.join(rules_dir, k.lower() + ".go")))
    na_file = os.path.join(HERE, "not_applicable.json")
    na_extra = json.load(open(na_file)) if os.path.exists(na_file) else {}
    checks = []
    for k in built:
        if k in na_extra:
            continue
        tech, text, note, ref = P[k]
        checks.append({
            "property_id": k,
            "quick_cmd": f"./check {k} quick",
            "thorough_cmd": f"./check {k} thorough",
            "evidence_file": f"/verif/evidence/{k}.json",
            "replay_cmd_template": "./check replay {path}",
            "engine": "iocvet",
            "level_claimed": {"category": "other", "text": text, "design_ref": "DESIGN.md " + ref},
            "level_note": note,
            "technique": "static analysis: " + tech,
        })
    na = []
    for k in sorted(P):
        if k in na_extra:
            na.append({"property_id": k, "reason": na_extra[k]})
        elif k not in built:
            na.append({"property_id": k, "reason": "check not built yet at this commit (work in progress; see DESIGN.md §9 build order)"})
    commits = []
    fx = os.path.join(HERE, "fix_commits.txt")
    if os.path.exists(fx):
        commits = [l.split()[0] for l in open(fx) if l.strip()]
    m = {
        "version": 1,
        "setup_cmd": "./check build",
        "hooks": {
            "guard": "verif",
            "enable": "no hooks: the checks analyse /repo's source statically and add no code to it (a build tag 'verif' is reserved but unused)",
            "baseline_off_cmd": "cd /repo && go build ./... && go test -vet=off -count=1 ./...",
            "source_commits": commits,
            "add_only": True,
        },
        "engines": [{"name": "iocvet", "path": "/verif/tool", "serves_properties": [c["property_id"] for c in checks],
                     "kind_free_text": "custom static analyser on go/packages + go/types + go/ssa (x/tools v0.29.0): dominance, control dependence, provenance, CHA reachability, abstract interpretation of small functions over symbolic tokens; nothing of /repo is executed"}],
        "checks": checks,
        "not_applicable": na,
        "notes": "All checks are static analysis of /repo's current working tree (see DESIGN.md). exit 0 = every obligation held or is a listed known finding; exit 1 = VIOLATION lines; exit 2 = the analyser could not run (no verdict).",
    }
    json.dump(m, open(os.path.join(HERE, "MANIFEST.json"), "w"), indent=1)
    print("claimed:", [c["property_id"] for c in checks], "not_applicable:", [x["property_id"] for x in na])

main()
